"""One-off writer for the round-6 seed metadata (kept for provenance)."""
import json, os
HERE = os.path.dirname(os.path.dirname(os.path.abspath(__file__)))
SRC = ('fresh sub-agent (round 6: property text + the kinds of change found in earlier rounds, asked for a silent change that a randomized '
       'tester drawing fresh inputs per example would not generate) with a scratch worktree of /repo at 145cc37')
M = {
 'C01': ('C01', 'one GeoEligibility object passed to two TBRMMData panels whose geos rank differently by volume (assignments memoised by the SET of geos, positions depend on the order)',
         'C01 (history flavour shared-eligibility)', 'one eligibility object per panel'),
 'C02': ('C02', 'a parameter object already used in a search whose geo_ratio_tolerance / volume_ratio_tolerance is then changed by attribute assignment (ratio bounds cached on the object)',
         'C02 (history flavour params-mutated)', 'parameter objects built with their final values'),
 'C03': ('C03', 'treatment_share_range, >= 9 admitted geos, 2-3 treatable geos with one at index >= 8 (size pre-check relies on set iteration order)',
         'C03 (few-treatable flavour, 9-11 geos)', 'panels of <= 8 geos'),
 'C04': ('C04', 'treatment series with a huge stable baseline relative to its movement (one-pass standard deviation, catastrophic cancellation)',
         'C04 (panels with a common offset of 2^24 / 2^26)', 'levels of the same order as the movements'),
 'C05': ('C05', 'series whose standard deviations multiply to < 1e-8 (np.isclose absolute tolerance treats them as constant, corr := 0)',
         'C05 (unit scales down to 2^-40)', 'scale factors 2^-12..2^12'),
 'C06': ('C06', 'int64 response with cumulative control totals above ~3e9 (squared cumulative sums wrap around)',
         'C06 (integer frames in micro-units)', 'float responses / small integers'),
 'C07': ('C07', 'pre-period spend only in geos outside the experiment (analysis data restricted to the two groups; scenario label becomes fixed)',
         'C07 (cost scenario un_pre_only)', 'unassigned geos never carried cost'),
 'C08': ('C08', 'a rejected assignment (wrong-length series -> ValueError) before the queries (cached mean overwritten before validation)',
         'C08 (rejected-assignment ops)', 'only valid assignments in histories'),
 'C09': ('C09', "geo_ratio_tolerance = inf (or ~1e308) with exhaustive_search / count_max_designs (int() of an infinite product: OverflowError)",
         'C09 (special values for tolerances)', None),
 'C10': ('C10', 'n_designs >= 2, two retained designs with exactly equal scores (twin control-only geos), results read twice (in-place sort + reverse flips ties)',
         'C10 (twin-geos flavour)', 'continuous data without exact ties'),
 'C11': ('C11', 'geo_ratio_tolerance 2/3 (or 2/13, 4/11 ...) with a size pair exactly on the boundary, e.g. 3:5 (multiplicative vs quotient form of the ratio test)',
         'C11 (ratio-boundary vectors, non-dyadic tolerances; count vs generator listing)', 'dyadic tolerances only'),
 'C12': ('C12', 'datetime64 dates stamped at 12:00 and a shift by an odd number of days (round-half-even snapping to days)',
         'C12 (noon-stamped panels)', 'midnight-stamped dates'),
 'C13': ('C13', 'geo_ratio_tolerance = 2/3 and greedy ending on a 3-vs-5 split over >= 8 geos (multiplicative ratio test in design_within_constraints only)',
         'C13 (ratio-boundary flavour: sizes pinned on the boundary, <= 8 geos)', '<= 6 geos, dyadic tolerances'),
 'C14': ('C14', 'n_designs changed on the live parameter object after TBRMatchedMarkets was built (result container sized at construction)',
         'C14 (search runs with history flavour params-mutated)', 'n_designs fixed before construction'),
 'C15': ('C15', 'the same GeoEligibility instance passed to two TBRMMData constructions, the first panel lacking an excludable geo of the table (caller object trimmed in place)',
         'C15 (shared eligibility object)', 'one eligibility object per construction'),
 'C16': ('C16', 'accepted table whose value columns are not in the order control, treatment, exclude (classes read by position)',
         'C16 (column permutations x asymmetric rows)', None),
 'C17': ('C17', 'Python int beyond the float range (>= 2**1024) in an integer field (float(value).is_integer(): OverflowError)',
         'C17 (huge ints in the grids)', 'ints up to 10**6'),
 'C18': ('C18', 'a group row inside the analysed periods with a NaN in an unrelated column (fit drops incomplete rows)',
         'C18 (frames with a partly empty extra column)', 'complete extra columns'),
 'C19': ('C19', 'one TBRDiagnostics fitted twice, first with custom/swapped group labels, then without group kwargs (semantics sticky across fits)',
         'C19 (refit flavour with other labels first)', 'refit with the same labels'),
 'C20': ("C20", "entry 'day-' with nothing after the dash (NaT end swallowed while coalescing windows)",
         "C20 (open-ended malformed entries)", 'malformed kinds drawn did not include an empty end'),
}
for c, (breaks, needs, caught, missed) in M.items():
  sid = c + '-f'
  meta = {'breaks': breaks, 'needs': needs, 'caught_by': [caught], 'missed_before': missed, 'id': sid, 'source': SRC,
          'confirmed': {'demo_without_change': 'exit 0 (PASS)', 'demo_with_change': 'exit 1 (FAIL)',
                        'pinned_suite': 'all 529 stable tests pass with the change (540 passed, same 9 pre-existing failures)',
                        'how': 'tools/seed_eval.py confirm / run'}}
  json.dump(meta, open(os.path.join(HERE, 'seeded', sid, 'meta.json'), 'w'), indent=1)
print('ok')
