"""Development tool: confirm a seeded change and run checks against it.

  python tools/seed_eval.py confirm <id> <worktree>     demo PASS without / FAIL with the change; pinned suite stable tests pass
  python tools/seed_eval.py run <id> <worktree> Cxx [Cyy ...]   run quick checks with VERIF_REPO=<worktree>
"""
import json, os, subprocess, sys, tempfile, xml.etree.ElementTree as ET
HERE = os.path.dirname(os.path.dirname(os.path.abspath(__file__)))


def sh(cmd, cwd=None, env=None):
  return subprocess.run(cmd, shell=True, cwd=cwd, env=env, capture_output=True, text=True)


def demo(wt):
  env = dict(os.environ, PYTHONPATH=wt)
  r = sh('/venv/bin/python -W ignore seeded_out/demo.py', cwd=wt, env=env)
  return r.returncode, (r.stdout + r.stderr).strip().splitlines()[-1:] 


def suite(wt):
  base = json.load(open('/root/.vp/BASELINE.json'))
  out = tempfile.mktemp(suffix='.xml', dir='/var/tmp')
  env = dict(os.environ, PYTHONPATH=wt)
  sh('/venv/bin/python -m pytest -q -p no:cacheprovider --timeout=900 --continue-on-collection-errors --junitxml=%s matched_markets/tests' % out, cwd=wt, env=env)
  tree = ET.parse(out); os.unlink(out)
  passed = set()
  for tc in tree.iter('testcase'):
    if not any(ch.tag in ('failure', 'error', 'skipped') for ch in tc):
      passed.add('%s::%s' % (tc.get('classname'), tc.get('name')))
  missing = sorted(set(base['stable_pass']) - passed)
  return len(passed), missing


def main():
  mode, sid, wt = sys.argv[1:4]
  if mode == 'confirm':
    # the patch file is the source of truth (git stash is shared between worktrees and must not be used)
    sh('git checkout -- matched_markets', cwd=wt)
    rc0, l0 = demo(wt)
    ra = sh('git apply seeded_out/patch.diff', cwd=wt)
    if ra.returncode != 0:
      print('PATCH DOES NOT APPLY', ra.stderr[:300])
    rc1, l1 = demo(wt)
    n, missing = suite(wt)
    imp = sh('/venv/bin/python -W ignore -c "import matched_markets; print(matched_markets.__file__)"', cwd=wt, env=dict(os.environ, PYTHONPATH=wt)).stdout.strip().splitlines()[-1]
    print(json.dumps({'id': sid, 'demo_without_change': [rc0, l0], 'demo_with_change': [rc1, l1], 'suite_passed': n,
                      'stable_tests_not_passing': missing, 'import': imp}))
  else:
    for prop in sys.argv[4:]:
      env = dict(os.environ, VERIF_REPO=wt, VERIF_EVIDENCE_DIR=os.path.join(HERE, 'out', 'seed-ev'))
      r = sh('%s/check %s --tier quick' % (HERE, prop), env=env)
      lines = [l for l in r.stdout.splitlines() if l.startswith(('violation', 'VIOLATION', 'HARNESS'))]
      print('%s vs seed %s: exit=%d %s' % (prop, sid, r.returncode, (lines[0][:300] if lines else '')))


main()
