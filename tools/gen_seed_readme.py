"""Regenerates the table in seeded/README.md from seeded/*/meta.json (the prose above the table is kept)."""
import glob, json, os
HERE = os.path.dirname(os.path.dirname(os.path.abspath(__file__)))
p = os.path.join(HERE, 'seeded', 'README.md')
head = []
for line in open(p):
  if line.startswith('|'):
    break
  head.append(line)
rows = ['| id | breaks | needs | caught by | missed before strengthening |\n', '|----|--------|-------|-----------|-----------------------------|\n']
n = missed = 0
for f in sorted(glob.glob(os.path.join(HERE, 'seeded', '*', 'meta.json'))):
  m = json.load(open(f))
  n += 1
  missed += bool(m.get('missed_before'))
  rows.append('| %s | %s | %s | %s | %s |\n' % (m['id'], m['breaks'], m['needs'].replace('|', '/'), ', '.join(m['caught_by']), m.get('missed_before') or '-'))
open(p, 'w').write(''.join(head) + ''.join(rows) + '\n%d changes; %d were missed by the checks as they stood when the change arrived and are caught since the strengthening named in the last column.\n' % (n, missed))
print(n, missed)
