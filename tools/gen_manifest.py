"""Regenerates MANIFEST.json from the table below (development tool; MANIFEST.json is what is committed)."""
import json
import os
import sys

HERE = os.path.dirname(os.path.dirname(os.path.abspath(__file__)))

# id -> (technique, level text, level note, design section)
CHECKS = {
    'C20': ('Hypothesis @given over structured day/range lists vs datetime.date set-union model; order/duplication metamorphic',
            'Generated-input search (thousands of day lists incl. overlaps, boundaries, malformed mutations) against an independent calendar model; finds wrong/duplicated/missing days and wrong exception types, never proves absence.',
            'Trusts Python datetime.date as the calendar; malformed classes limited to unambiguous ones.', '6 C20'),
}

CHECKS['C17'] = ('exhaustive enumeration of the single-field boundary grid + Hypothesis 1-3 field combinations vs a documented-domain table (ACCEPT / REJECT=ValueError / EITHER)',
                 'Every single-field boundary value is enumerated (finite, complete); multi-field combinations are sampled. Decides accept/reject and exception type against the docstring; EITHER where docs and callers are silent.',
                 'The domain table is my reading of the class docstring plus the two shipped notebooks (caller-grounded ACCEPTs).', '6 C17')

CHECKS['C14'] = ('Hypothesis RuleBasedStateMachine (push/read/mutate-snapshot histories) vs sorted-list reference model; @given search runs for order/cap',
                 'Model-based stateful testing of the bounded container after every step, plus order/cap of real search results on generated inputs.',
                 'Ties at the cut-off compared on item scores (any equal item may be retained).', '6 C14')
CHECKS['C16'] = ('exhaustive enumeration of all tables over the 8 row types (<=3/<=4 rows) x presentation variants x all ordered subsets + all single malformed mutations; Hypothesis for tables up to 10 rows',
                 'Finite sub-domain enumerated completely (acceptance predicate, class-of-row table, positional indices); larger tables sampled.',
                 'Acceptance predicate is the statement of C16; string geo IDs in queries.', '6 C16')

CHECKS['C08'] = ('Hypothesis RuleBasedStateMachine over set-x/set-y/clear-x/read histories; fresh-object model after every read and at teardown',
                 'Stateful generated histories; every read compared with a freshly built object holding the same series.',
                 'Same code on both sides (staleness only); value correctness is C04/C05.', '6 C08')
CHECKS['C05'] = ('Hypothesis @given: closed-form reference, differential against tbr.TBR on a constructed experiment, metamorphic laws (2^k scaling, shifts, monotone/even in rho)',
                 'Generated pretest series x parameters; three independent oracles (own closed form, the analysis code path, metamorphic relations).',
                 'scipy t/F quantiles trusted; tolerances 1e-9 (closed form, conditioning-aware) and 1e-7 (differential).', '6 C05')

CHECKS['C06'] = ('Hypothesis @given experiment frames vs closed-form Kerman-2017 posterior written from scratch; layout metamorphics; differential with the design-side tbrfit',
                 'Generated frames (layouts, names/labels, unassigned geos/periods, gaps) x summary arguments against an independent closed form computed from generated group totals.',
                 'scipy.stats.t trusted; rel 1e-8; rescale > 0; full panels.', '6 C06')
CHECKS['C07'] = ('Hypothesis @given cost frames (fixed / variable / label-only scenarios): closed-form identities, same-seed determinism with a freshly fitted model, scenario predicate, exact 2^k unit equivariance',
                 'Generated frames x summary arguments; fixed-cost figures against R8 and generated cost totals; variable-cost report checked for determinism, bounds order and unit equivariance.',
                 'Default names for date/period/cost/response; variable scenario requires a clearly non-zero cost effect (>= 20 scales, n_pre >= 10).', '6 C07')

CHECKS['C18'] = ('Hypothesis @given cooldown frames x metric x level x tails; relations of the statement recomputed from the closed-form posterior; known finding F12 matched by an oracle-side predicate',
                 'Generated frames incl. the post-analysis colab layout; success of the call, per-date bounds order, counterfactual+pointwise=observed, residuals, last cumulative row vs R8 quantiles.',
                 'Default names for date/period/cost/response; F12 (non-monotone posterior scale) is a recorded finding, any other failure is a violation.', '6 C18')

CHECKS['C19'] = ('Hypothesis @given screening frames (planted noisy geos / outlier cells, custom names and labels) vs set-difference model of the screened data and per-date totals; row-order metamorphic',
                 'Generated frames; what is removed is compared with what is reported, the aggregated series with totals recomputed from the screened rows, and a permuted copy must give the same report.',
                 'Full panels; detection power not claimed; documented ValueErrors accepted.', '6 C19')

SEARCH_NOTE = 'Decided for <=6 geos (quick) / <=8 geos (thorough); real-valued bounds with 1e-9 relative dont-care band; ValueError outcomes accepted (C09 decides crashes).'
CHECKS['C01'] = ('Hypothesis @given panel x eligibility x parameters, both searches; validity predicate computed from the raw table/frame',
                 'Generated inputs incl. every constraint kind; each returned design checked for legality against the user-level table and frame, plus admitted-set clauses on the object.', SEARCH_NOTE, '6 C01')
CHECKS['C02'] = ('Hypothesis @given constraint-heavy inputs with data-aware bounds; independent recomputation of sizes, exact Fraction ratios, shares (both readings), closed-form budget',
                 'Every returned design re-measured from the raw frame; non-trivial only when a specified constraint is binding in the brute-force legal space.', SEARCH_NOTE, '6 C02')
CHECKS['C03'] = ('Hypothesis @given + brute-force enumeration of the whole legal/feasible space with independent scores; top-k dominance over the complement, allowed-pruning set',
                 'For each generated input the full 3^n assignment space over the admitted geos is enumerated and scored independently; the result list is checked for feasibility, score equality, order, length, completeness and dominance.', SEARCH_NOTE + ' Fragile discrete score entries create no obligation.', '6 C03')
CHECKS['C04'] = ('Hypothesis @given; series re-aggregated by geo ID from the raw frame; independent re-implementation of every diagnostic and of the score tuple (differential)',
                 'Every returned design at every position: series, correlation, required impact, regression fit, four tests, joint verdict and score tuple recomputed independently.', SEARCH_NOTE + ' A/A probability is a pinned-behaviour model.', '6 C04')
CHECKS['C09'] = ('Hypothesis @given degenerate-biased inputs; outcome in {list of designs, ValueError}; exception bucketing (type, innermost frame); CPU-time watchdog',
                 'Generated infeasible / extreme inputs on both searches; any exception other than ValueError, a non-list result or a CPU-budget overrun is a violation.', 'Termination observed under a 120 s CPU budget, not proved.', '6 C09')
CHECKS['C10'] = ('Hypothesis RuleBasedStateMachine over the public query/search/result API; fresh-object model per call; immutability invariants on parameters and frames',
                 'Generated call histories on one object; each answer compared with a freshly built object; caller-owned inputs compared with deep copies after every step.', 'Panels <=4 geos (quick) / <=5 (thorough), <=10 / <=25 steps.', '6 C10')
CHECKS['C11'] = ('itertools enumeration of all eligibility class-count vectors x settings + Hypothesis up to 9 geos; count == generator listing == independent 3-way assignment enumeration',
                 'Finite sub-domain enumerated completely (<=4 geos quick with a rotating sixth of the settings, <=6 geos x all 180 settings thorough); larger vectors sampled.', 'Fractions for the ratio; synthetic 8-date panel.', '6 C11')
CHECKS['C12'] = ('Hypothesis @given metamorphic: base vs transformed input (row permutation, date shift, ID dtype, renaming, 2^k scale), tie-tolerant comparison; cross-PYTHONHASHSEED child runs (thorough)',
                 'Generated base inputs x drawn transformations on both searches; results must agree up to renaming / exact scaling.', SEARCH_NOTE, '6 C12')
CHECKS['C13'] = ('Hypothesis @given without budget/share constraints; greedy designs must lie in the brute-force feasible set; best(greedy) <= best(exhaustive); empty => empty',
                 'Generated inputs; feasible set computed by the oracle (not taken from the exhaustive output).', SEARCH_NOTE, '6 C13')
CHECKS['C15'] = ('Hypothesis @given long frames (missing cells, dtypes, order) x eligibility subset/equal/superset x geo-index orders vs independent pivot / means / shares / aggregates',
                 'Generated frames; canonical table, row order, shares, retained eligibility, assignable set, index-based assignments and aggregates recomputed independently; accept/ValueError predicate.', 'No duplicate (geo, date) rows; geo_index as list of string IDs.', '6 C15')

PENDING = {}


def main():
  props = [json.loads(l) for l in open(os.path.join(HERE, 'properties.jsonl'))]
  checks = []
  na = []
  for p in props:
    pid = p['id']
    if pid in CHECKS and os.path.exists(os.path.join(HERE, 'vmm', 'props', pid.lower() + '.py')):
      tech, text, note, ref = CHECKS[pid]
      checks.append({
          'property_id': pid,
          'quick_cmd': './check %s --tier quick' % pid,
          'thorough_cmd': './check %s --tier thorough' % pid,
          'evidence_file': 'evidence/%s.json' % pid,
          'replay_cmd_template': './check %s --replay {path}' % pid,
          'engine': 'vmm',
          'level_claimed': {'category': 'exploration', 'text': text, 'design_ref': 'DESIGN.md section ' + ref},
          'level_note': note,
          'technique': tech,
      })
    else:
      na.append({'property_id': pid, 'reason': PENDING.get(pid, 'check not built yet in this session (property-based testing applies; see DESIGN.md section 6); not claimed until its check exists and is quiet on the unchanged tree')})
  hooks_commits = []
  man = {
      'version': 1,
      'setup_cmd': './setup.sh',
      'hooks': {
          'guard': 'MATCHED_MARKETS_VERIF',
          'enable': 'no hooks or instrumentation were needed: every observable is public API; ./check exports MATCHED_MARKETS_VERIF=1 for uniformity only',
          'baseline_off_cmd': 'cd /repo && /venv/bin/python -m pytest -ra -q -p no:cacheprovider --timeout=900 --continue-on-collection-errors',
          'source_commits': hooks_commits,
          'add_only': True,
      },
      'engines': [{'name': 'vmm', 'path': 'vmm/', 'serves_properties': [c['property_id'] for c in checks],
                   'kind_free_text': 'Hypothesis 6.168 (@given + RuleBasedStateMachine) driven in 16 forked shards, plus itertools enumeration of finite sub-domains; spec -> materialise -> observe -> oracle; collect-then-shrink; plain replay without Hypothesis'}],
      'checks': checks,
      'not_applicable': na,
      'notes': 'All checks: ./check <id> [--tier quick|thorough] [--replay file]; env VERIF_SEED, VERIF_TIER, VERIF_REPO. Exit 0 held / 1 VIOLATION / 2 harness error. known_findings.json lists recorded findings and fixed defects.',
  }
  with open(os.path.join(HERE, 'MANIFEST.json'), 'w') as f:
    json.dump(man, f, indent=1)
  import jsonschema
  jsonschema.validate(man, json.load(open('/root/.vp/MANIFEST.schema.json')))
  print('MANIFEST.json: %d checks, %d not_applicable' % (len(checks), len(na)))


if __name__ == '__main__':
  main()
