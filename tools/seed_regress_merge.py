"""Builds seeded/REGRESSION.md from the logs of tools/seed_regress.py (later files override earlier rows for the same id)."""
import glob, os, re, subprocess, sys, time
HERE = os.path.dirname(os.path.dirname(os.path.abspath(__file__)))
rows = {}
for f in sys.argv[1:]:
  for line in open(f):
    m = re.match(r'^(C\d\d-[a-z])\s+(\S+)\s+(.*?)\s+(\d+)s\s*$', line.rstrip('\n'))
    if m:
      rows[m.group(1)] = (m.group(2), m.group(3).strip(), int(m.group(4)))
ids = sorted(os.path.basename(os.path.dirname(f)) for f in glob.glob(os.path.join(HERE, 'seeded', '*', 'meta.json')))
head = subprocess.run('git -C /repo rev-parse --short HEAD', shell=True, capture_output=True, text=True).stdout.strip()
vh = subprocess.run('git -C %s rev-parse --short HEAD' % HERE, shell=True, capture_output=True, text=True).stdout.strip()
label = {'caught': 'caught', 'MISSED': 'MISSED', 'patch-conf': 'patch no longer applies (the code it touches was repaired since)', 'inert': 'inert on the repaired tree'}
out = ['# Seeded changes re-run against the current checks\n\n',
       'Every `seeded/<id>/patch.diff` applied to a scratch worktree of /repo %s, the agent\'s demo re-run (it must still fail), then `./check <Cnn> --tier quick` (VERIF_SEED=1) '
       'with VERIF_REPO pointing at the worktree (`tools/seed_regress.py`; /verif %s or a few commits earlier, %s). Changes whose patch no longer applies were verified when they arrived (meta.json).\n\n' % (
           head, vh, time.strftime('%Y-%m-%d %H:%M UTC', time.gmtime())),
       '| id | result | first violation kind | wall s |\n|---|---|---|---|\n']
n = {'caught': 0, 'MISSED': 0, 'other': 0, 'not run': 0}
for i in ids:
  r = rows.get(i)
  if r is None:
    n['not run'] += 1
    out.append('| %s | not run | | |\n' % i)
    continue
  key = r[0] if r[0] in ('caught', 'MISSED') else 'other'
  n[key] += 1
  out.append('| %s | %s | %s | %d |\n' % (i, label.get(r[0], r[0]), r[1], r[2]))
out.append('\n%d changes: %d caught, %d missed, %d not applicable to the current tree, %d not run.\n' % (len(ids), n['caught'], n['MISSED'], n['other'], n['not run']))
open(os.path.join(HERE, 'seeded', 'REGRESSION.md'), 'w').write(''.join(out))
print(n)
