"""Builds mutants_report.md from the logs of `python -m vmm.mutants.run` (one line per mutant).

  python tools/mutants_report.py out/mut-A.log out/mut-B.log ...   (later files override earlier lines for the same mutant)
"""
import re, subprocess, sys, os, time
HERE = os.path.dirname(os.path.dirname(os.path.abspath(__file__)))
sys.path.insert(0, HERE)
from vmm.mutants.catalog import MUTANTS
rows = {}
for f in sys.argv[1:]:
  for line in open(f):
    m = re.match(r'^(C\d\d)\s+(\S+)\s+(KILLED|SURVIVED|PATCH-FAILED\S*|EXIT-\d+)\s+([\d.]+)s\s*(.*)$', line)
    if m:
      rows[(m.group(1), m.group(2))] = (m.group(3), float(m.group(4)), m.group(5).strip())
cat = [(p, name) for p in sorted(MUTANTS) for name, _ in MUTANTS[p]]
out = ['# Mutant catalogue: last full run\n\n',
       'Driver: `PYTHONPATH=/verif /venv/bin/python -m vmm.mutants.run [Cnn]` (quick tier, VERIF_SEED=1). One textual patch at a time is applied to a scratch copy of\n'
       '`matched_markets/`; KILLED = the check of the property the mutant is filed under exits 1 with a VIOLATION line.\n\n',
       'Repo commit %s, /verif commit %s, %s.\n\n' % (
           subprocess.run('git -C /repo rev-parse --short HEAD', shell=True, capture_output=True, text=True).stdout.strip(),
           subprocess.run('git -C %s rev-parse --short HEAD' % HERE, shell=True, capture_output=True, text=True).stdout.strip(),
           time.strftime('%Y-%m-%d %H:%M UTC', time.gmtime())),
       '| property | mutant | result | wall s | first violation kind |\n|---|---|---|---|---|\n']
n = killed = 0
missing = []
for p, name in cat:
  r = rows.get((p, name))
  if r is None:
    missing.append((p, name))
    continue
  n += 1
  killed += r[0] == 'KILLED'
  kind = re.search(r"kinds=\['([^']+)'", r[2])
  out.append('| %s | %s | %s | %.0f | %s |\n' % (p, name, r[0], r[1], kind.group(1) if kind else ''))
out.append('\n%d mutants run, %d killed, %d not killed.%s\n' % (n, killed, n - killed, (' Not run: %s.' % ', '.join('%s/%s' % x for x in missing)) if missing else ''))
open(os.path.join(HERE, 'mutants_report.md'), 'w').write(''.join(out))
print(n, killed, len(missing))
