"""Re-runs every seeded change against the checks as they are now.

  python tools/seed_regress.py [jobs] [id-prefix]   -> seeded/REGRESSION.md

For each seeded/<id>/: a scratch worktree of /repo HEAD under /var/tmp, `git apply` (3-way if needed) of patch.diff, the
agent's demo (must still FAIL, else the change is inert on the current tree), then the quick check of the targeted property
with VERIF_REPO=<worktree> (evidence goes to out/seed-ev). The worktree is removed afterwards.
"""
import glob, json, os, subprocess, sys, time
from concurrent.futures import ThreadPoolExecutor
HERE = os.path.dirname(os.path.dirname(os.path.abspath(__file__)))


def sh(cmd, cwd=None, env=None, timeout=3000):
  try:
    return subprocess.run(cmd, shell=True, cwd=cwd, env=env, capture_output=True, text=True, timeout=timeout)
  except subprocess.TimeoutExpired:
    return subprocess.CompletedProcess(cmd, 124, '', 'timeout')


F18_LINES = '''    # The numerical routines downstream work on plain numpy numbers, not on
    # pandas' nullable extension types (Int64, Float64).
    if any(isinstance(dtype, pd.api.extensions.ExtensionDtype)
           for dtype in df.dtypes):
      df = df.astype(float)
'''


def resolve_f18(wt):
  """The repair F18 added five lines right after the pivot in TBRMMData.__init__; a change that rewrites the pivot conflicts
  with them textually only. Resolution: the change's version of the pivot, followed by the F18 lines."""
  import re
  p = os.path.join(wt, 'matched_markets/methodology/tbrmmdata.py')
  src = open(p).read()
  blocks = re.findall(r'<<<<<<< ours\n(.*?)=======\n(.*?)>>>>>>> theirs\n', src, re.S)
  if len(blocks) != 1 or 'ExtensionDtype' not in blocks[0][0] or sh('git diff --name-only --diff-filter=U', cwd=wt).stdout.split() != ['matched_markets/methodology/tbrmmdata.py']:
    return False
  src = re.sub(r'<<<<<<< ours\n(.*?)=======\n(.*?)>>>>>>> theirs\n', lambda m: m.group(2) + F18_LINES, src, flags=re.S)
  open(p, 'w').write(src)
  sh('git reset -q', cwd=wt)
  return True


def one(sid):
  d = os.path.join(HERE, 'seeded', sid)
  wt = '/var/tmp/sr-%s' % sid
  sh('git -C /repo worktree remove --force %s' % wt)
  r = sh('git -C /repo worktree add -q --detach %s HEAD' % wt)
  try:
    a = sh('git apply %s/patch.diff' % d, cwd=wt)
    how = 'applies'
    if a.returncode != 0:
      a = sh('git apply --3way %s/patch.diff' % d, cwd=wt)
      how = '3-way'
      if a.returncode != 0 or 'conflict' in (a.stdout + a.stderr).lower():
        if not resolve_f18(wt):
          return sid, 'patch-conflict', '', 0.0
        how = '3-way, resolved around the F18 lines'
    env = dict(os.environ, PYTHONPATH=wt)
    dm = sh('/venv/bin/python -W ignore %s/demo.py' % d, cwd=wt, env=env, timeout=900)
    if dm.returncode == 0:
      return sid, 'inert (demo passes with the change on the current tree)', how, 0.0
    prop = sid[:3]
    t0 = time.time()
    env = dict(os.environ, VERIF_REPO=wt, VERIF_EVIDENCE_DIR=os.path.join(HERE, 'out', 'seed-ev'))
    c = sh('%s/check %s --tier quick' % (HERE, prop), env=env)
    kinds = [l for l in c.stdout.splitlines() if l.startswith('violation')]
    kind = kinds[0].split("'")[1] if kinds and "'" in kinds[0] else ''
    return sid, ('caught' if c.returncode == 1 else 'MISSED' if c.returncode == 0 else 'exit-%d' % c.returncode), kind, time.time() - t0
  finally:
    sh('git -C /repo worktree remove --force %s' % wt)


def main():
  jobs = int(sys.argv[1]) if len(sys.argv) > 1 else 3
  prefix = sys.argv[2] if len(sys.argv) > 2 else ''
  ids = sorted(os.path.basename(os.path.dirname(f)) for f in glob.glob(os.path.join(HERE, 'seeded', '*', 'meta.json')))
  ids = [i for i in ids if i.startswith(prefix)]
  rows = []
  with ThreadPoolExecutor(jobs) as ex:
    for r in ex.map(one, ids):
      rows.append(r)
      print('%-6s %-10s %-60s %5.0fs' % (r[0], r[1][:10], r[2][:60], r[3]), flush=True)
  sh('git -C /repo worktree prune')
  head = subprocess.run('git -C /repo rev-parse --short HEAD', shell=True, capture_output=True, text=True).stdout.strip()
  vh = subprocess.run('git -C %s rev-parse --short HEAD' % HERE, shell=True, capture_output=True, text=True).stdout.strip()
  out = ['# Seeded changes re-run against the current checks\n\n',
         'Every `seeded/<id>/patch.diff` applied to a scratch worktree of /repo %s, demo re-run, then `./check <Cnn> --tier quick` (VERIF_SEED=1) of /verif %s with VERIF_REPO pointing at the worktree (%s).\n\n' % (
             head, vh, time.strftime('%Y-%m-%d %H:%M UTC', time.gmtime())),
         '| id | result | first violation kind | wall s |\n|---|---|---|---|\n']
  for r in rows:
    out.append('| %s | %s | %s | %.0f |\n' % (r[0], r[1], r[2], r[3]))
  n = len(rows)
  out.append('\n%d changes: %d caught, %d missed, %d not applicable to the current tree (patch conflict or inert after a repair).\n' % (
      n, sum(r[1] == 'caught' for r in rows), sum(r[1] == 'MISSED' for r in rows), sum(r[1] not in ('caught', 'MISSED') for r in rows)))
  if not prefix:
    open(os.path.join(HERE, 'seeded', 'REGRESSION.md'), 'w').write(''.join(out))


main()
