"""Runs the repository's pinned suite and checks that every BASELINE.json stable_pass test still passes."""
import json, subprocess, sys, tempfile, os, xml.etree.ElementTree as ET
base = json.load(open('/root/.vp/BASELINE.json'))
out = tempfile.mktemp(suffix='.xml', dir='/var/tmp')
cmd = base['cmd'].replace('<file>', out)
r = subprocess.run(cmd, shell=True, capture_output=True, text=True)
tree = ET.parse(out); os.unlink(out)
passed = set()
for tc in tree.iter('testcase'):
  ok = not any(ch.tag in ('failure', 'error', 'skipped') for ch in tc)
  if ok: passed.add('%s::%s' % (tc.get('classname'), tc.get('name')))
want = set(base['stable_pass'])
missing = sorted(want - passed)
print('stable_pass %d, passed now %d, missing %d' % (len(want), len(passed), len(missing)))
for m in missing[:20]: print('  NOT PASSING:', m)
sys.exit(1 if missing else 0)
