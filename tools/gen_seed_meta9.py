"""One-off writer for the round-9 seed metadata (kept for provenance)."""
import json, os
HERE = os.path.dirname(os.path.dirname(os.path.abspath(__file__)))
SRC = ('fresh sub-agent (round 9: property text + what the eight earlier changes for it needed, asked for (C) a pandas / numpy semantics slip or '
       '(D) an interaction of two options or features) with a scratch worktree of /repo at 145cc37; re-based by me onto 9c3d25b (fixes F16-F18) and re-confirmed there')
M = {
 'C01': ('C01', 'exhaustive search, volume_ratio_tolerance set, a non-excludable control-side geo whose own share exceeds (1+tol) x the share of a treatment group (pruned candidate drops out of the forced set)',
         'C01 (big-fixed-geo flavour)', 'caught by chance only (seed-dependent) before the flavour existed'),
 'C02': ('C02 (also C03, C15)', 'a geo without rows for part of the dates and a share-based constraint (geo means taken with skipna before the zero fill)',
         'C02 (late-entrant geos in the search panels)', 'complete panels in the search checks (C15 alone had missing cells)'),
 'C03': ('C03 (also C02, C15)', 'a geo without rows for part of the dates and treatment_share_range / volume_ratio_tolerance (same slip as C02-i, written independently)',
         'C03 (late-entrant geos)', 'complete panels'),
 'C04': ('C04', 'date column categorical with declared categories that have no rows (groupby observed=False adds phantom all-zero dates to the window)',
         'C04 (categorical date column with two unused later categories)', 'plain date columns'),
 'C05': ('C05 (also C06)', 'integer-typed response column in the frame given to TBR.fit (np.ones_like inherits int64, running means floored)',
         'C05 (same experiment as int64 and as float64), C06', 'C05 built float frames only'),
 'C06': ('C06', 'one TBR object fitted, queried, fitted again on another frame and queried for the same periods (memo of period data not cleared by fit)',
         'C06 (refit flavour)', None),
 'C07': ('C07', 'fixed-cost scenario, summary() called a second time on the same fitted object (rescale written into a cached array through ravel())',
         'C07 (refit flavour; report asked twice)', None),
 'C08': ('C08', 'a constant control series assigned, then another x without clearing (sticky flat flag)',
         'C08', None),
 'C10': ('C10', 'an exhaustive search that raises ValueError part-way (perfectly correlated twin geos) after a search that completed, then search_results (partial results left on the object)',
         'C10 (twins as the two smallest geos of an unrestricted panel; search-again-then-retrieve rule)', 'twins were control-only, no search raised part-way'),
 'C11': ('C11', 'eligibility columns of boolean dtype (integer keys do not match boolean groupby levels: count 0)',
         'C11 (bool / Int64 eligibility columns)', 'int64 columns only'),
 'C12': ('C12', 'panel rows without a geo ID and a renaming that changes which geo is alphabetically last (code -1 adds them to the last row)',
         'C12 (rows without geo ID)', 'every row had a geo ID'),
 'C13': ('C13', 'volume_ratio_tolerance with a treatment-only geo of substantial volume (pool share bound subtracts a geo that was never in the pool)',
         'C13', None),
 'C14': ('C14', 'several keys: a full key with a smaller minimum receives an item below another key\'s cutoff (one cutoff shared by all keys)',
         'C14', None),
 'C15': ('C15', 'eligibility table with no geo in common with the data, every row excludable (empty list means all geos)',
         'C15', None),
 'C16': ('C16', 'two rows whose geo ID is missing (value_counts drops missing values)',
         'C16 (missing-ID mutation)', 'duplicates were always present values'),
 'C17': ('C17', '+inf for iroas / volume_ratio_tolerance / geo_ratio_tolerance (strict implicit upper bound)',
         'C17', None),
 'C18': ('C18', 'fixed-cost scenario, summary() first, then the response effect series on the same object (rescale left in a cached scale)',
         'C18 (summary read first)', 'reports asked on a freshly fitted object'),
 'C19': ('C19', 'a clean frame (nothing reported), edited in place by the caller after fit(), then get_data() (frame kept by reference)',
         'C19 (caller edits frame after fit)', 'frames untouched after fit'),
 'C20': ('C20', 'ranges that touch in exactly one day, or a single day equal to an end of a range (right-closed intervals: not overlapping, day listed twice)',
         'C20', None),
}
for c, (breaks, needs, caught, missed) in M.items():
  sid = c + '-i'
  meta = {'breaks': breaks, 'needs': needs, 'caught_by': [caught], 'missed_before': missed, 'id': sid, 'source': SRC,
          'confirmed': {'demo_without_change': 'exit 0 (PASS)', 'demo_with_change': 'exit 1 (FAIL)',
                        'pinned_suite': 'all 529 stable tests pass with the change (540 passed, same 9 pre-existing failures)',
                        'how': 'tools/seed_eval.py confirm / run'}}
  json.dump(meta, open(os.path.join(HERE, 'seeded', sid, 'meta.json'), 'w'), indent=1)
print('ok')
