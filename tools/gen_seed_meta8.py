"""One-off writer for the round-8 seed metadata (kept for provenance)."""
import json, os
HERE = os.path.dirname(os.path.dirname(os.path.abspath(__file__)))
SRC = ('fresh sub-agent (round 8: property text + what the seven earlier changes for it needed, asked for (A) a numerical shortcut accurate only in part of the domain or '
       '(B) a change in a rarely used part of the public surface) with a scratch worktree of /repo at 145cc37')
M = {
 'C01': ('C01', 'eligibility table with geo as a column and row labels that are not 0..n-1 in order (geo IDs re-attached by index label)',
         'C01 (tables with reversed / gapped row labels)', None),
 'C02': ('C02', 'greedy search, treatment_share_range, a non-assignable geo in the data and an assignable geo that is not admitted (share measured against the assignable geos)',
         'C02 (share-squeeze flavour: range placed between the shares against all / assignable / admitted geos)', 'ranges from random quantile pairs rarely fell between the three denominators'),
 'C03': ('C03 (also C14)', 'no budget range and required impacts above ~1e7 (np.isclose with atol 1e-8 on 1/impact in the score order)',
         'C03', None),
 'C04': ('C04', 'analysis window of more than 122 points, i.e. n_pretest_max >= 123 and a long panel (normal quantile for df > 120)',
         'C04 (panels of 100-170 dates with a window beyond 90)', 'panels <= 40 dates'),
 'C05': ('C05', 'pretest series longer than 102 points (normal quantile for df > 100)',
         'C05 (series of 95-170 points)', 'n <= 60'),
 'C06': ('C06', 'pre-period control series with variance below 1e-8, e.g. metrics in millions (np.isclose guard drops the leverage term of the design-side fit)',
         'C06 (frames in units of 2^-24 / 2^-12 / 2^20)', 'unit scale fixed'),
 'C07': ('C07', 'fixed-cost scenario with a total spend that is not a whole number of cents (incremental cost rounded to 2 decimals)',
         'C07 (unit-equivariance clause)', None),
 'C08': ('C08', 'x assigned as int64 / float32 / list of ints, then a float64 x without clearing (buffer reused, dtype of the first assignment kept)',
         'C08 (series assigned in other dtypes, followed by a float64 series)', 'float64 series only'),
 'C09': ('C09', 'geo_ratio_tolerance set and a treatment size with no admissible control size (bare next() in a generator: RuntimeError)',
         'C09', None),
 'C10': ('C10', 'a search with designs, treatment_geos_range then set so that no treatment size is admissible, exhaustive_search (returns []), search_results (stale designs)',
         'C10 (rule change-parameter: a field of the live parameter object is assigned between calls)', 'parameters never changed during a history'),
 'C11': ('C11', 'tolerance >= controllable geos - 1 with more treatable geos than that (one-sided shortcut in the count)',
         'C11 (enumeration of class-count vectors)', None),
 'C12': ('C12', 'scale factor >= 2^30 without a budget range (ranking key rounded to 10 decimals)',
         'C12 (2^k scaling up to 2^45)', None),
 'C13': ('C13 (also C03)', 'a design with correlation above rho_max in a treatment group visited after the heap filled (prune trusting rho_max)',
         'C13', None),
 'C14': ('C14', 'two retained designs whose scores differ by less than 1e-4 relative (isclose in the score order)',
         'C14 (search cases)', None),
 'C15': ('C15', 'geo means closer than 5e-7, e.g. a panel in tiny units (row order by means rounded to 6 decimals)',
         'C15 (panels in units of 2^-24 / 2^-12)', 'unit scale fixed'),
 'C16': ('C16', 'an extra, not required column with a missing value (missing-value check over all columns)',
         'C16 (partly empty extra column)', 'constant extra column'),
 'C17': ('C17', 'float within 1e-9 relative of a whole number in an integer field (math.isclose integrality)',
         'C17 (float neighbours of the bounds)', None),
 'C18': ('C18', 'pre-period of more than 102 dates (normal quantile for df > 100)',
         'C18 (pre-periods of 85-160 points)', 'n_pre <= 40'),
 'C19': ('C19', 'date column of ISO strings / integers / date objects and an outlier date reported (isin against a DatetimeIndex)',
         'C19 (date column kinds)', 'time stamps only'),
 'C20': ('C20', 'range whose end is exactly one day before its start',
         'C20 (reversed malformed kind)', None),
}
for c, (breaks, needs, caught, missed) in M.items():
  sid = c + '-h'
  meta = {'breaks': breaks, 'needs': needs, 'caught_by': [caught], 'missed_before': missed, 'id': sid, 'source': SRC,
          'confirmed': {'demo_without_change': 'exit 0 (PASS)', 'demo_with_change': 'exit 1 (FAIL)',
                        'pinned_suite': 'all 529 stable tests pass with the change (540 passed, same 9 pre-existing failures)',
                        'how': 'tools/seed_eval.py confirm / run'}}
  json.dump(meta, open(os.path.join(HERE, 'seeded', sid, 'meta.json'), 'w'), indent=1)
print('ok')
