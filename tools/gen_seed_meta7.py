"""One-off writer for the round-7 seed metadata (kept for provenance)."""
import json, os
HERE = os.path.dirname(os.path.dirname(os.path.abspath(__file__)))
SRC = ('fresh sub-agent (round 7: property text + what the six earlier changes for it needed, asked for a REALISTIC change - optimisation, '
       'idiom migration, merged code paths, input normalisation, feature extension - wrong for inputs or call sequences that a randomized tester '
       'knowing all earlier triggers would still be unlikely to hit) with a scratch worktree of /repo at 145cc37')
M = {
 'C01': ('C01 (also C15)', 'eligibility table listing a (1,1,0) geo that has no rows in the panel (required-geo check reduced to c_fixed | t_fixed; the row is dropped silently)',
         'C01 (designs returned although a non-excludable geo of the table is absent)', 'obligation only for must-include geos present in the data (C15 caught it from the start)'),
 'C02': ('C02', 'a bound within ~1e-5 (relative) of a design value on the wrong side, or budgets below 1e-8 in absolute terms (np.isclose in the constraint helper)',
         'C02 (near-edge bounds)', None),
 'C03': ('C03', 'budget_range set, iroas < 1 and n_designs below the number of feasible designs (pre-check bound off by the factor iroas)',
         'C03 (loose-budget flavour: non-binding budget range, iroas in {0.1..8}, small k)', 'budget ranges were mostly binding, so the queue rarely filled'),
 'C04': ('C04', 'one searcher searched twice with a geo-list-changing parameter (budget_range, treatment_share_range, n_geos_max) set in between (series cache keyed by positions)',
         'C04 (history flavour params-mutated now also changes the admission fields)', 'params-mutated changed only n_designs, tolerances and size ranges'),
 'C05': ('C05 (also C08)', 'series passed as ndarray and overwritten in place by the caller before the first read (np.asarray aliasing)',
         'C05 (reuse flavour hands over work buffers and overwrites them), C08 (assignment from a buffer)', 'callers never touched an array after handing it over'),
 'C06': ('C06', "causal_cumulative_distribution(periods=<bare label>) with a label equal to 0 ('if not periods')",
         'C06 (explicit periods as tuple and as bare label; label set with test = 0)', 'periods always defaulted'),
 'C07': ('C07', 'campaign spend of ~1e12 next to a background spend of a few units (zero-cost test made relative to total spend)',
         'C07 (spend 2^40 in the scenarios with small pre-period / control spend)', 'spend <= 100'),
 'C08': ('C08', 'two live diagnostics objects with different treatment series read alternately (class-level dict shared by all instances)',
         'C08 (second live object assigned / read in between)', 'one live object per history'),
 'C09': ('C09', '>= 65 geos in the geo index with a treatable geo at position >= 64, budget_range set, exhaustive search (uint64 bit masks)',
         'C09 (many-geos flavour: 65-72 geos, 3-4 treatable)', '<= 8 geos'),
 'C10': ('C10', 'the caller edits the list / designs returned by a search or a retrieval, then retrieves again (internal list handed out)',
         'C10 (rule edit-returned-then-retrieve)', 'callers only read what they were handed'),
 'C11': ('C11', 'count_max_designs as the first call on a fresh object with an admission filter that drops an assignable geo (class sizes from a stale geo index)',
         'C11 (n_geos_max cases)', None),
 'C12': ('C12', 'complete panel sorted by ascending geo with the same non-chronological date order inside every geo block (fast path skips the column sort)',
         'C12, C15, C04 (database-style row orders)', 'row orders were uniform shuffles'),
 'C13': ('C13 (also C01, C09)', 'capped searcher whose data object is re-pointed by an uncapped searcher between its searches (geo index pushed only when the own list changed)',
         'C13 (shared-capped branch), C01', 'in shared-data histories the other searcher mostly had the smaller geo list (IndexError, C09 only)'),
 'C14': ('C14', 'a returned report list edited in place, then read again without a push under that key (memoised sorted lists handed out)',
         'C14 (read-and-mutate-snapshot rule)', None),
 'C15': ('C15', 'geo column of object dtype holding Python ints (is_string_dtype on the dtype skips the conversion)',
         'C15 and the search checks (object / mixed / string geo dtypes)', 'int64 or str columns only'),
 'C16': ('C16', 'the same list object passed to two consecutive subset queries with the same flag and edited in place in between (last query memoised by reference)',
         'C16 (one reused list object for half of the tables)', 'a fresh list per query'),
 'C17': ('C17', 'compare, assign a field, compare again (cached asdict used by __eq__)',
         'C17 (equality-after-assignment sequence, also on a copy)', 'objects compared once, right after construction'),
 'C18': ('C18 (also C07)', 'the caller edits its frame in place after fit() and before the first cost report (cost model fitted lazily from the caller frame)',
         'C18, C07, C06 (caller-edits-frame-after-fit flavour)', 'frames untouched after fit'),
 'C19': ('C19', 'an outlier date reported and dates on which neither group has rows, e.g. excluded geos with a longer history (keep-list built from the aggregated index)',
         'C19 (excluded geos with 3-7 days more history)', 'rectangular frames'),
 'C20': ('C20', 'the parsed TimeWindow objects expanded again after a first expansion of an overlapping list (windows widened in place while merging)',
         'C20 (window objects re-expanded as a list and one by one, ends compared)', 'string-in / days-out only'),
}
for c, (breaks, needs, caught, missed) in M.items():
  sid = c + '-g'
  meta = {'breaks': breaks, 'needs': needs, 'caught_by': [caught], 'missed_before': missed, 'id': sid, 'source': SRC,
          'confirmed': {'demo_without_change': 'exit 0 (PASS)', 'demo_with_change': 'exit 1 (FAIL)',
                        'pinned_suite': 'all 529 stable tests pass with the change (540 passed, same 9 pre-existing failures)',
                        'how': 'tools/seed_eval.py confirm / run'}}
  json.dump(meta, open(os.path.join(HERE, 'seeded', sid, 'meta.json'), 'w'), indent=1)
print('ok')
