"""Recon: C19 with the post-analysis colab's layout (key_group='assignment', control=2, treatment=1, excluded geos -1, period -1 rows)."""
import sys, collections, warnings
import numpy as np, pandas as pd
warnings.simplefilter('ignore')
from matched_markets.methodology import tbrdiagnostics
cnt=collections.Counter(); ex={}
def note(k,i): cnt[k]+=1; ex.setdefault(k,i)
for seed in range(int(sys.argv[1]),int(sys.argv[2])):
    rng=np.random.default_rng(seed)
    ng=int(rng.integers(4,12)); n_pre=int(rng.integers(8,30)); n_test=int(rng.integers(2,10)); n_cool=int(rng.integers(0,4)); n_after=int(rng.integers(0,4))
    n=n_pre+n_test+n_cool+n_after
    dates=pd.date_range('2021-03-01',periods=n)
    period=np.array([0]*n_pre+[1]*n_test+[2]*n_cool+[-1]*n_after)
    base=rng.normal(100,15,n)+np.sin(np.arange(n))*10
    rows=[]
    for g in range(ng):
        grp=[2,1,-1][g%3] if g>=2 else [2,1][g]
        y=np.round(((1+g)*base*0.1+rng.normal(0,1,n))*1024)/1024
        rows+=[(dates[i],g,y[i],grp,period[i]) for i in range(n)]
    df=pd.DataFrame(rows,columns=['date','geo','response','assignment','period']).sample(frac=1.0,random_state=seed).reset_index(drop=True)
    df0=df.copy(deep=True)
    t=tbrdiagnostics.TBRDiagnostics()
    try: t.fit(df,key_group='assignment',group_control=2,group_treatment=1)
    except Exception as e: note(('exc',type(e).__name__,str(e)[:60]),seed); continue
    res=t.get_test_results(); ng_=res['noisy_geos'] or []; od=res['outlier_dates']
    exp=df0[~df0.geo.isin(ng_)]; exp=exp[~exp.date.isin(od)]
    got=t.get_data()
    a=exp.sort_values(['date','geo']).reset_index(drop=True); b=got.sort_values(['date','geo']).reset_index(drop=True)
    if not a.equals(b): note('screened mismatch',seed)
    ad=t.get_analysis_data()
    ex_x=exp[exp.assignment==2].groupby('date').response.sum(); ex_y=exp[exp.assignment==1].groupby('date').response.sum()
    if len(ad)!=len(ex_x) or not (np.allclose(ad.x.values,ex_x.reindex(ad.index).values) and np.allclose(ad.y.values,ex_y.reindex(ad.index).values)): note('analysis mismatch',seed)
    if not df.equals(df0): note('input modified',seed)
    cnt[('ok',min(len(ng_),2),min(len(od),2))]+=1
for k,v in sorted(cnt.items(),key=lambda x:-x[1]): print(v,k,ex.get(k))
