import warnings
import numpy as np, pandas as pd
warnings.simplefilter('ignore')
exec(open('explore4.py').read().split("rng=np.random.default_rng(0)")[0])
rng=np.random.default_rng(5)
for fc in (True,False):
    df=frame(rng,12,5,3,fixed_cost=fc)
    df2=df.rename(columns={'date':'day','period':'phase','cost':'spend','response':'sales','group':'grp'})
    m=tbr_iroas.TBRiROAS(use_cooldown=True)
    with warnings.catch_warnings():
        warnings.simplefilter('ignore')
        m.fit(df2,key_date='day',key_period='phase',key_cost='spend',key_response='sales',key_group='grp')
        for metric in ['tbr_response','tbr_cost']:
            try:
                r=m.estimate_pointwise_and_cumulative_effect(metric); print(fc,metric,'ok')
            except Exception as e: print(fc,metric,type(e).__name__,str(e)[:60])
        try: print(m.summary(random_state=1).iloc[0].estimate)
        except Exception as e: print('summary',type(e).__name__,e)
# unassigned periods with default names
df=frame(rng,12,5,3,fixed_cost=True)
df.loc[df.date<df.date.min()+pd.Timedelta(days=2),'period']=-1
m=tbr_iroas.TBRiROAS(use_cooldown=True)
with warnings.catch_warnings():
    warnings.simplefilter('ignore')
    m.fit(df)
    for metric in ['tbr_response','tbr_cost']:
        try:
            r=m.estimate_pointwise_and_cumulative_effect(metric); print('unassigned',metric,'ok',len(r.pointwise_difference))
        except Exception as e: print('unassigned',metric,type(e).__name__,str(e)[:60])
