import sys, collections, warnings, traceback
import numpy as np, pandas as pd
warnings.filterwarnings('ignore')
from matched_markets.methodology import tbrdiagnostics
cnt=collections.Counter(); ex={}
def note(k,i): cnt[k]+=1; ex.setdefault(k,i)
for seed in range(int(sys.argv[1]),int(sys.argv[2])):
    rng=np.random.default_rng(seed)
    ng=int(rng.integers(2,12)); n_pre=int(rng.integers(5,30)); n_test=int(rng.integers(1,10)); n_cool=int(rng.integers(0,4))
    n=n_pre+n_test+n_cool
    dates=pd.date_range('2021-03-01',periods=n)
    period=np.array([0]*n_pre+[1]*n_test+[2]*n_cool)
    base=rng.normal(100,15,n)+np.sin(np.arange(n))*10
    grp=[1+(g%2) for g in range(ng)]
    rows=[]
    noisy_planted=set(); 
    for g in range(ng):
        y=(1+g)*base*0.1+rng.normal(0,1,n)
        if ng>=5 and rng.random()<0.15: y=rng.normal(10,1,n); noisy_planted.add(g)
        if rng.random()<0.05: y=np.full(n,5.0); noisy_planted.add(g)
        rows+=[(dates[i],g,y[i],grp[g],period[i]) for i in range(n)]
    df=pd.DataFrame(rows,columns=['date','geo','response','group','period'])
    out_planted=None
    if rng.random()<0.4:
        i=int(rng.integers(0,n)); gsel=int(rng.integers(0,ng))
        df.loc[(df.date==dates[i])&(df.geo==gsel),'response']+=float(rng.choice([50,500]))
        out_planted=dates[i]
    df=df.sample(frac=1.0,random_state=seed).reset_index(drop=True)
    df0=df.copy(deep=True)
    t=tbrdiagnostics.TBRDiagnostics()
    try: t.fit(df)
    except Exception as e:
        tb=traceback.extract_tb(e.__traceback__); fr=[f for f in tb if 'matched_markets' in f.filename][-1]
        note(('exc',type(e).__name__,fr.name,fr.lineno,str(e)[:50]),(seed,ng,n_pre,n_test,n_cool)); continue
    if not df.equals(df0): note('input modified',seed)
    res=t.get_test_results(); ng_=res['noisy_geos']; od=res['outlier_dates']
    exp=df0[~df0.geo.isin(ng_ or [])]; exp=exp[~exp.date.isin(od)]
    got=t.get_data()
    a=exp.sort_values(['date','geo']).reset_index(drop=True); b=got.sort_values(['date','geo']).reset_index(drop=True)
    if not a.equals(b): note('screened mismatch',seed)
    ad=t.get_analysis_data()
    ex_x=exp[exp.group==1].groupby('date').response.sum(); ex_y=exp[exp.group==2].groupby('date').response.sum()
    if not (np.allclose(ad.x.values,ex_x.reindex(ad.index).values) and np.allclose(ad.y.values,ex_y.reindex(ad.index).values)): note('analysis mismatch',seed)
    if len(ad)!=exp.date.nunique(): note('analysis dates mismatch',seed)
    cnt[('ok', None if ng_ is None else min(len(ng_),2), min(len(od),2))]+=1
for k,v in sorted(cnt.items(),key=lambda x:-x[1]): print(v,k,ex.get(k))
