"""Recon: stateful probe of TBRMatchedMarkets API statelessness (C10)."""
import os, sys, math, warnings, collections, dataclasses, copy
import numpy as np, pandas as pd
from hypothesis import settings, strategies as st, HealthCheck, seed, Phase
from hypothesis.stateful import RuleBasedStateMachine, rule, precondition, initialize, run_state_machine_as_test
warnings.simplefilter('ignore')
sys.argv_saved = sys.argv
exec(open('hyp_feasibility.py').read().split("kinds = collections.Counter()")[0])
from matched_markets.methodology import tbrmmdesign
def dsig(r):
    return [(tuple(sorted(map(str, d.treatment_geos))), tuple(sorted(map(str, d.control_geos))), tuple(float(x) for x in d.score.score),
             float(d.diag.corr), float(d.diag.required_impact)) for r_ in [r] for d in r_]
def call(mm, name, args=()):
    try:
        v = getattr(mm, name)
        v = v(*args) if callable(v) else v
        if name in ('exhaustive_search', 'greedy_search', 'search_results'): return ('designs', dsig(v))
        if name in ('treatment_group_generator', 'control_group_generator'): return ('gen', sorted(tuple(sorted(s)) for s in v))
        if dataclasses.is_dataclass(v): return ('dc', {k: sorted(x) for k, x in dataclasses.asdict(v).items()})
        if isinstance(v, (set, frozenset)): return ('set', sorted(v))
        if isinstance(v, range): return ('range', list(v))
        return ('val', v if not isinstance(v, np.generic) else v.item())
    except (ValueError, KeyError, TypeError, IndexError, ZeroDivisionError, AttributeError) as e:
        return ('exc', type(e).__name__)
class M(RuleBasedStateMachine):
    @initialize(spec=panel_spec(max_geos=4))
    def init(self, spec):
        self.spec = spec; self.hist = []
        self.df, self.el, self.kw = materialise(spec)
        self.df0 = self.df.copy(deep=True)
        self.par = tbrmmdesignparameters.TBRMMDesignParameters(**self.kw)
        self.par0 = dataclasses.asdict(self.par)
        try:
            self.mm = self.build(self.df, self.el, self.par)
        except ValueError:
            self.mm = None
    def build(self, df, el, par):
        data = tbrmmdata.TBRMMData(df, 'response', geoeligibility.GeoEligibility(el) if el is not None else None)
        return tbrmatchedmarkets.TBRMatchedMarkets(data, par)
    def fresh(self):
        mm = self.build(self.df0.copy(deep=True), None if self.el is None else self.el.copy(), tbrmmdesignparameters.TBRMMDesignParameters(**self.kw))
        return mm
    def do(self, name, args=()):
        if self.mm is None: return
        if name == 'design_within_constraints': call(self.mm, 'geo_assignments')
        got = call(self.mm, name, args)
        f = self.fresh()
        if name == 'search_results':
            last = [h for h in self.hist if h in ('exhaustive_search', 'greedy_search')]
            if not last: return
            call(f, last[-1])
        if name in ('design_within_constraints','control_group_generator','treatment_group_generator'):
            n_adm = len(f.geos_within_constraints)
            if any(i >= n_adm for a in args if isinstance(a,(set,frozenset)) for i in a): return
            call(f, 'geo_assignments')
        exp = call(f, name, args)
        self.hist.append(name)
        assert got == exp, (name, args, got, exp)
        assert dataclasses.asdict(self.par) == self.par0, ('params mutated', name)
        assert self.df.equals(self.df0), 'frame mutated'
    @rule(name=st.sampled_from(['geos_over_budget', 'geos_too_large', 'geos_must_include', 'geos_within_constraints', 'geo_assignments',
                                'treatment_group_size_range', 'count_max_designs']))
    def query(self, name): self.do(name)
    @rule(n=st.integers(1, 3))
    def tgen(self, n): self.do('treatment_group_generator', (n,))
    @rule(t=st.sets(st.integers(0, 3), min_size=1, max_size=2))
    def cgen(self, t): self.do('control_group_generator', (t,))
    @rule(t=st.sets(st.integers(0, 3), min_size=1, max_size=2), c=st.sets(st.integers(0, 3), min_size=1, max_size=2))
    def dwc(self, t, c):
        if t & c: return
        self.do('design_within_constraints', (t, c))
    @rule()
    def ex(self): self.do('exhaustive_search')
    @rule()
    def gr(self): self.do('greedy_search')
    @rule()
    def res(self): self.do('search_results')
run_state_machine_as_test(seed(int(os.environ.get('VERIF_SEED', '1')))(M),
    settings=settings(max_examples=int(sys.argv_saved[1]), stateful_step_count=10, deadline=None, database=None,
                      suppress_health_check=list(HealthCheck), report_multiple_bugs=False, phases=[Phase.generate]))
print('no failure')
