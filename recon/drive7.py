import sys, collections, warnings
import numpy as np, pandas as pd
warnings.simplefilter('ignore')
exec(open('explore4.py').read().split("rng=np.random.default_rng(0)")[0])
warnings.simplefilter('ignore')
cnt=collections.Counter(); ex={}
def note(k,i): cnt[k]+=1; ex.setdefault(k,i)
def close(a,b,rel=1e-9): 
    a=float(a); b=float(b)
    if np.isinf(a) or np.isinf(b): return a==b
    return abs(a-b)<=rel*max(abs(a),abs(b),1e-12)
for seed in range(int(sys.argv[1]),int(sys.argv[2])):
    rng=np.random.default_rng(seed)
    n_pre=int(rng.integers(3,25)); n_test=int(rng.integers(1,8)); n_cool=int(rng.integers(0,4))
    fc=bool(rng.integers(0,2)); cool=bool(n_cool>0 and rng.integers(0,2))
    df=frame(rng,n_pre,n_test,max(n_cool,1) if cool else n_cool,ngc=int(rng.integers(1,4)),ngt=int(rng.integers(1,4)),fixed_cost=fc, lift=float(rng.choice([0,5,50])))
    tails=int(rng.integers(1,3)); lvl=float(rng.choice([0.6,0.8,0.9,0.95])); thr=float(rng.choice([0.,1.,5.]))
    with warnings.catch_warnings():
        warnings.simplefilter('ignore')
        m=tbr_iroas.TBRiROAS(use_cooldown=cool); m.fit(df)
        try:
            s=m.summary(level=lvl,posterior_threshold=thr,tails=tails,random_state=seed,nsims=2000).iloc[0]
            s2=m.summary(level=lvl,posterior_threshold=thr,tails=tails,random_state=seed,nsims=2000).iloc[0]
        except Exception as e: note(('exc',type(e).__name__,str(e)[:50]),seed); continue
    if s.scenario!=('fixed' if fc else 'variable'): note('scenario',seed)
    if not all(close(s[c],s2[c]) for c in ['estimate','lower','upper','probability','relative_lift']): note('nondeterministic',seed)
    if not (s.lower<=s.estimate<=s.upper): note(('order violated',fc,n_pre<=4,tails),(seed,n_pre,s.lower,s.estimate,s.upper))
    if fc:
        periods=(1,2) if cool else (1,)
        cost=df[(df.group==2)&df.period.isin(periods)].cost.sum()
        if not close(s.incremental_cost,cost): note('fixed cost != trt cost',seed)
        r=m.tbr_response.summary(level=lvl,threshold=0,tails=tails).iloc[0]
        for c in ['estimate','lower','upper']:
            if not close(s[c], r[c]/cost, 1e-9): note(('iroas != resp/cost',c),(seed,s[c],r[c]/cost))
        if not close(s.incremental_response, s.estimate*cost,1e-8): note('incr resp',(seed,s.incremental_response, s.estimate*cost))
        if not close(s.incremental_response_lower, s.lower*cost): note('incr lower',seed)
    cnt[('ok',fc,cool,tails)]+=1
for k,v in sorted(cnt.items(),key=lambda x:-x[1]): print(v,k,ex.get(k))
