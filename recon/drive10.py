import sys, collections, warnings, math
import numpy as np, pandas as pd
from scipy import stats
warnings.simplefilter('ignore')
from matched_markets.methodology import tbr, tbrmmdiagnostics, tbrmmdesignparameters
P=tbrmmdesignparameters.TBRMMDesignParameters; D=tbrmmdiagnostics.TBRMMDiagnostics
cnt=collections.Counter(); ex={}
def close(a,b,rel=1e-7): return abs(a-b)<=rel*max(abs(a),abs(b),1e-300)
for seed in range(int(sys.argv[1]),int(sys.argv[2])):
    rng=np.random.default_rng(seed)
    n=int(rng.integers(4,40)); T=int(rng.integers(1,15))
    base=rng.normal(100,20,n)
    x=base*rng.uniform(.5,2)+rng.normal(0,5,n); y=base*rng.uniform(.5,2)+rng.normal(0,5,n)
    par=P(n_test=T,iroas=1.0,sig_level=float(rng.uniform(0.55,0.99)),power_level=float(rng.uniform(0.05,0.99)),flevel=float(rng.uniform(0.9,0.999)))
    d=D(y,par); d.x=x
    ri=d.required_impact
    a,b,sigma,_=d.pretestfit
    phi=stats.f.ppf(par.flevel,1,n-1)
    dv=phi*(n+1)/(T*(n-1))
    delta=math.sqrt(dv*np.var(x))
    # test-period control values with mean xbar+delta, arbitrary spread
    xt=x.mean()+delta+ (rng.normal(0,3,T)-0); xt=xt-xt.mean()+x.mean()+delta
    noise=rng.normal(0,2,T); noise-=noise.mean()
    yt=a+b*xt+ri/T+noise
    dates=pd.date_range('2020-01-01',periods=n+T)
    rows=[]
    for i in range(n+T):
        per=0 if i<n else 1
        rows.append((dates[i],'c',1,per,(x[i] if i<n else xt[i-n])))
        rows.append((dates[i],'t',2,per,(y[i] if i<n else yt[i-n])))
    df=pd.DataFrame(rows,columns=['date','geo','group','period','response']).set_index('geo')
    m=tbr.TBR(use_cooldown=False); m.fit(df,'response')
    s=m.summary(level=par.sig_level,tails=1).iloc[0]
    tq_s=stats.t.ppf(par.sig_level,n-2); tq_p=stats.t.ppf(par.power_level,n-2)
    ok=True
    if not close(s.scale*(tq_s+tq_p), ri): ok=False; ex.setdefault('scale',(seed,s.scale*(tq_s+tq_p),ri))
    if n>3 and not close(s.estimate, ri,1e-6): ok=False; ex.setdefault('est',(seed,s.estimate,ri,n))
    if not close(s.lower, tq_p*s.scale,1e-6) and abs(s.lower-tq_p*s.scale)>1e-6*abs(ri): ok=False; ex.setdefault('lower',(seed,s.lower,tq_p*s.scale))
    # tbrfit agreement
    f=d.tbrfit(xt.mean(),yt.mean())
    if not close(f.estimate,ri,1e-6) or not close(f.scale,s.scale): ok=False; ex.setdefault('tbrfit',(seed,f,s.scale))
    cnt[ok]+=1
print(cnt,ex)
