import sys
exec(open('oracle1.py').read())
exec(open('explore1.py').read().split("cnt=collections.Counter()")[0].split("ROWS = ")[1].split("\n",1)[1])  # gen()
cnt=collections.Counter(); ex={}
def note(k, info):
    cnt[k]+=1; ex.setdefault(k, info)
for seed in range(int(sys.argv[1]), int(sys.argv[2])):
    rng=np.random.default_rng(seed)
    df,el,kw=gen(rng)
    elrows = None if el is None else el.values.tolist()
    par0=P(**kw)
    sp = oracle_space(df, elrows, par0)
    for method in ['exhaustive_search','greedy_search']:
        try:
            ge = GE(el) if el is not None else None
            data=tbrmmdata.TBRMMData(df,'response',ge)
            par=P(**kw)
            mm=tbrmatchedmarkets.TBRMatchedMarkets(data,par)
            adm_lib = set(mm.geos_within_constraints)
            r=getattr(mm,method)()
        except ValueError as e:
            note((method,'ValueError',str(e)[:40]), seed); continue
        except Exception as e:
            note((method,type(e).__name__,str(e)[:40]), seed); continue
        if sp==('ValueError',): note((method,'expected ValueError but ok'),seed); continue
        if adm_lib != sp['adm']: note((method,'admitted set differs'),(seed,adm_lib,sp['adm']))
        legal = set(enumerate_legal(sp))
        # C01
        for d in r:
            T=frozenset(d.treatment_geos); C=frozenset(d.control_geos)
            el_=sp['elig']
            if not T or not C or T&C: note((method,'C01 empty/overlap'),seed)
            if any(g not in sp['M'] for g in T|C): note((method,'C01 geo not in data'),seed)
            if any(el_.get(g,(0,0,0))[1]!=1 for g in T): note((method,'C01 trt ineligible'),seed)
            if any(el_.get(g,(0,0,0))[0]!=1 for g in C): note((method,'C01 ctl ineligible'),seed)
            if sp['must'] - (T|C): note((method,'C01 must-include missing'),(seed, sp['must'], T, C, kw.get('n_geos_max')))
            if (T,C) not in legal and not (sp['must'] - (T|C)): note((method,'C01 not in legal enumeration'),seed)
            # C02
            if not constraints_ok(sp,par0,T,C): note((method,'C02 size/ratio violated'),(seed,T,C,kw))
            if not (share_ok(sp,par0,T,'all') or share_ok(sp,par0,T,'admitted')): note((method,'C02 share violated'),(seed,T,C,kw))
            if par0.budget_range is not None:
                b = d.diag.required_impact/par0.iroas
                if not (par0.budget_range[0] <= b <= par0.budget_range[1]): note((method,'C02 budget violated'),(seed,T,C,b,kw))
        if len(r) > par0.n_designs: note((method,'C14 too many'),seed)
        sc=[d.score.score for d in r]
        if any(sc[i] < sc[i+1] for i in range(len(sc)-1)): note((method,'C14 not sorted'),seed)
        keys=[(frozenset(d.treatment_geos),frozenset(d.control_geos)) for d in r]
        if len(set(keys))!=len(keys): note((method,'duplicate designs'),seed)
        cnt[(method,'ok',len(legal)>0, len(r)>0)]+=1
for k,v in sorted(cnt.items(), key=lambda x:-x[1]): print(v,k, ex.get(k))
