"""Recon only: measures Hypothesis generation/shrink cost for the planned panel spec
strategy and checks that the C09 totality oracle re-finds F1/F2 and shrinks them."""
import os, sys, time, json, warnings, collections, traceback
import numpy as np, pandas as pd
import hypothesis
from hypothesis import given, settings, strategies as st, HealthCheck, seed, Phase
from hypothesis.extra import numpy as hnp
warnings.simplefilter('ignore')
from matched_markets.methodology import geoeligibility, tbrmatchedmarkets, tbrmmdata, tbrmmdesignparameters
ROWS = [(0,0,1),(0,1,0),(1,0,0),(1,1,1),(0,1,1),(1,0,1),(1,1,0)]

@st.composite
def panel_spec(draw, max_geos=6):
    n_test = draw(st.integers(1, 6))
    n_dates = draw(st.integers(n_test + 3, 30))
    n_geos = draw(st.integers(1, max_geos))
    factor = draw(st.lists(st.integers(-8, 8), min_size=n_dates, max_size=n_dates))
    level = draw(st.lists(st.sampled_from([1, 2, 4, 8, 12, 20, 32]), min_size=n_geos, max_size=n_geos))
    amp = draw(st.lists(st.sampled_from([0, 2, 8, 32, 128]), min_size=n_geos, max_size=n_geos))
    noise = draw(hnp.arrays(np.int16, (n_geos, n_dates), elements=st.integers(-512, 512)))
    elig = draw(st.one_of(st.none(), st.lists(st.integers(0, 6), min_size=n_geos, max_size=n_geos)))
    kw = dict(n_test=n_test, iroas=draw(st.sampled_from([0.5, 1.0, 3.0])))
    if draw(st.booleans()): kw['geo_ratio_tolerance'] = draw(st.sampled_from([0.1, 0.5, 1.0, 2.0]))
    if draw(st.booleans()): kw['volume_ratio_tolerance'] = draw(st.sampled_from([0.05, 0.25, 1.0, 4.0]))
    if draw(st.booleans()): kw['treatment_geos_range'] = draw(st.sampled_from([(1,1),(1,2),(2,3),(3,6),(5,9)]))
    if draw(st.booleans()): kw['control_geos_range'] = draw(st.sampled_from([(1,1),(1,2),(2,3),(3,6),(5,9)]))
    if draw(st.booleans()): kw['n_geos_max'] = draw(st.integers(2, 4))
    kw['n_designs'] = draw(st.sampled_from([1, 3, 50]))
    return dict(n_dates=n_dates, factor=factor, level=level, amp=amp, noise=noise.tolist(), elig=elig, kw=kw)

def materialise(spec):
    nd = spec['n_dates']; f = 100 + np.cumsum(spec['factor'])
    dates = pd.date_range('2020-01-06', periods=nd)
    rows = []
    for g, (lv, am) in enumerate(zip(spec['level'], spec['amp'])):
        pat = np.array([((7*g + 3*d) % 11) for d in range(nd)]) * lv / 8.0
        v = lv * f + am * np.array(spec['noise'][g]) / 512.0 + pat
        v = np.maximum(0, np.round(v * 1024)) / 1024
        rows += [(dates[d], str(g + 1), v[d]) for d in range(nd)]
    df = pd.DataFrame(rows, columns=['date', 'geo', 'response'])
    el = None
    if spec['elig'] is not None:
        el = pd.DataFrame([(str(g + 1),) + ROWS[r] for g, r in enumerate(spec['elig'])],
                          columns=['geo', 'control', 'treatment', 'exclude'])
    return df, el, spec['kw']

kinds = collections.Counter(); last = {}
SUSP = set()
def check(spec):
    df, el, kw = materialise(spec)
    out = []
    for method in ('exhaustive_search', 'greedy_search'):
        try:
            data = tbrmmdata.TBRMMData(df, 'response', geoeligibility.GeoEligibility(el) if el is not None else None)
            mm = tbrmatchedmarkets.TBRMatchedMarkets(data, tbrmmdesignparameters.TBRMMDesignParameters(**kw))
        except ValueError:
            continue
        try:
            r = getattr(mm, method)()
            assert isinstance(r, list)
        except ValueError:
            pass
        except Exception as e:
            tb = traceback.extract_tb(e.__traceback__)
            fr = [f for f in tb if 'matched_markets' in f.filename][-1]
            out.append('C09:%s:%s' % (type(e).__name__, fr.name))
    return out

N = [0]
@seed(int(os.environ.get('VERIF_SEED', '1')))
@settings(max_examples=int(sys.argv[1]) if len(sys.argv) > 1 else 100, database=None, deadline=None,
          suppress_health_check=list(HealthCheck), report_multiple_bugs=False)
@given(panel_spec())
def test(spec):
    N[0] += 1
    v = [k for k in check(spec) if k not in SUSP]
    for k in v: kinds[k] += 1
    if v:
        last['spec'] = spec; last['kinds'] = v
        raise AssertionError(v[0])

for rnd in range(4):
    t0 = time.time(); N[0] = 0
    try:
        test(); print('round', rnd, 'no failure', N[0], 'examples', round(time.time() - t0, 1), 's'); break
    except AssertionError as e:
        print('round', rnd, 'FAIL', e, 'after', N[0], 'calls', round(time.time() - t0, 1), 's')
        s = last['spec']; print('  minimal: geos', len(s['level']), 'dates', s['n_dates'], 'elig', s['elig'], 'kw', s['kw'])
        SUSP.add(str(e))
