import sys, traceback, collections, warnings, copy
import numpy as np, pandas as pd
warnings.filterwarnings('ignore')
from matched_markets.methodology import geoeligibility, tbrmatchedmarkets, tbrmmdata, tbrmmdesignparameters
GE = geoeligibility.GeoEligibility
ROWS = [(0,0,1),(0,1,0),(1,0,0),(1,1,1),(0,1,1),(1,0,1),(1,1,0)]
def gen(rng):
    ng = rng.integers(1,7); nd = rng.integers(10,25)
    base = rng.normal(100,20,nd)
    rows=[]
    dates = pd.date_range('2020-01-01', periods=nd)
    scales = rng.uniform(0.2,3,ng)
    for g in range(ng):
        noise = rng.normal(0, rng.choice([1,10,40]), nd)
        y = scales[g]*base + noise
        for d,v in zip(dates,y): rows.append((d,str(g+1),v))
    df = pd.DataFrame(rows, columns=['date','geo','response'])
    if rng.random()<0.6:
        el = pd.DataFrame([(str(g+1),)+ROWS[rng.integers(0,7)] for g in range(ng)], columns=['geo','control','treatment','exclude'])
        ge = GE(el)
    else: ge=None; el=None
    kw = dict(n_test=int(rng.integers(1,8)), iroas=float(rng.choice([1.0,3.0])))
    if rng.random()<0.3: kw['volume_ratio_tolerance']=float(rng.choice([0.1,0.5,2.0]))
    if rng.random()<0.3: kw['geo_ratio_tolerance']=float(rng.choice([0.1,0.5,1.0,2.0]))
    if rng.random()<0.3:
        lo=rng.uniform(0.01,0.5); kw['treatment_share_range']=(float(lo), float(rng.uniform(lo+0.01,0.99)))
    if rng.random()<0.3:
        lo=rng.choice([0.0,1.0,50.]); kw['budget_range']=(float(lo), float(lo+rng.choice([10,100,1000,1e5])))
    if rng.random()<0.3:
        lo=int(rng.integers(1,4)); kw['treatment_geos_range']=(lo,int(lo+rng.integers(0,3)))
    if rng.random()<0.3:
        lo=int(rng.integers(1,4)); kw['control_geos_range']=(lo,int(lo+rng.integers(0,3)))
    if rng.random()<0.2: kw['n_geos_max']=int(rng.integers(2,6))
    if rng.random()<0.3: kw['n_pretest_max']=int(rng.integers(kw['n_test']+3, 30))
    kw['n_designs']=int(rng.choice([1,2,5,50]))
    return df, el, kw
cnt=collections.Counter(); ex={}
for seed in range(int(sys.argv[1]), int(sys.argv[2])):
    rng=np.random.default_rng(seed)
    df,el,kw=gen(rng)
    for method in ['exhaustive_search','greedy_search']:
        try:
            ge = GE(el) if el is not None else None
            data=tbrmmdata.TBRMMData(df,'response',ge)
            par=tbrmmdesignparameters.TBRMMDesignParameters(**kw)
            mm=tbrmatchedmarkets.TBRMatchedMarkets(data,par)
            r=getattr(mm,method)()
            cnt[(method,'ok', min(len(r),2))]+=1
        except Exception as e:
            tb=traceback.extract_tb(e.__traceback__)
            fr=[f for f in tb if 'matched_markets' in f.filename][-1]
            key=(method,type(e).__name__, fr.name, fr.lineno, str(e)[:60])
            cnt[key]+=1; ex.setdefault(key,(seed,kw, None if el is None else el.values.tolist()))
for k,v in sorted(cnt.items(), key=lambda x:-x[1]): print(v,k)
print()
for k,v in ex.items(): print(k,'\n   ',v)
