"""Recon: boundary grid for TBRMMDesignParameters against a docstring-derived domain table."""
import math, itertools, collections
import numpy as np
from matched_markets.methodology.tbrmmdesignparameters import TBRMMDesignParameters as P
INF = float('inf'); NAN = float('nan')
na = lambda b: (math.nextafter(b, -INF), math.nextafter(b, INF))
A, R, E = 'ACCEPT', 'REJECT', 'EITHER'
def is_num(v): return isinstance(v, (int, float)) and not isinstance(v, bool)
def special(v):
    if isinstance(v, bool) or isinstance(v, np.generic): return E
    return None
def scalar_float(lo, lo_closed, hi, hi_closed, optional):
    def f(v):
        if v is None: return A if optional else R
        s = special(v)
        if s: return s
        if not is_num(v): return R
        if v != v: return R
        if v == INF and hi == INF: return E
        ok_lo = v >= lo if lo_closed else v > lo
        ok_hi = v <= hi if hi_closed else v < hi
        return A if (ok_lo and ok_hi) else R
    return f
def scalar_int(lo, optional):
    def f(v):
        if v is None: return A if optional else R
        s = special(v)
        if s: return s
        if not is_num(v): return R
        if v != v or v in (INF, -INF): return R
        if isinstance(v, float):
            if v != int(v): return R
            return E if v >= lo else R
        return A if v >= lo else R
    return f
def pair(lo, lo_closed, hi, hi_closed, integer, strict_order_either):
    def f(v):
        if v is None: return A
        if not isinstance(v, tuple) or len(v) != 2: return R
        if any(isinstance(x, bool) or isinstance(x, np.generic) for x in v): return E
        if not all(is_num(x) for x in v): return R
        a, b = v
        if a != a or b != b: return R
        if integer and any(x in (INF, -INF) for x in v): return R
        ok = (a >= lo if lo_closed else a > lo) and (b <= hi if hi_closed else b < hi)
        if b == INF and hi == INF and not integer: ok_inf = True
        else: ok_inf = False
        if a > b: return R
        if not ok:
            if ok_inf and (a >= lo if lo_closed else a > lo): return E
            return R
        if integer and any(isinstance(x, float) and x != int(x) for x in v): return R
        if a == b: return A if integer else E
        if integer and any(isinstance(x, float) for x in v): return E
        return A
    return f
DOM = {
 'n_test': scalar_int(1, False), 'iroas': scalar_float(0.0, True, INF, False, False),
 'volume_ratio_tolerance': scalar_float(0.0, False, INF, False, True), 'geo_ratio_tolerance': scalar_float(0.0, False, INF, False, True),
 'treatment_share_range': pair(0.0, False, 1.0, False, False, True), 'budget_range': pair(0.0, True, INF, False, False, True),
 'treatment_geos_range': pair(1, True, INF, False, True, False), 'control_geos_range': pair(1, True, INF, False, True, False),
 'n_geos_max': scalar_int(2, True), 'n_pretest_max': scalar_int(3, False), 'n_designs': scalar_int(1, False),
 'rho_max': scalar_float(0.9, True, 1.0, False, False), 'sig_level': scalar_float(0.0, False, 1.0, False, False),
 'power_level': scalar_float(0.0, False, 1.0, False, False), 'min_corr': scalar_float(0.8, True, 1.0, False, False),
 'flevel': scalar_float(0.9, True, 1.0, False, False)}
BASE = dict(n_test=7, iroas=3.0)
SCAL = [None, 0, -0.0, 0.0, 1, 2, 3, -1, 0.5, 0.8, 0.9, 0.995, 1.0, 1.5, 2.0, 2.5, 3.0, 7.1, 10**20, 1e300, INF, -INF, NAN, True, False,
        np.int64(3), np.float64(0.95), np.float32(0.95), 'a', '1', [1], (1,), 1j, b'1'] + [x for b in (0.0, 0.8, 0.9, 1.0, 2.0, 3.0) for x in na(b)]
PV = [0, 0.0, -0.0, 1, 2, 3, -1, 0.2, 0.5, 1.0, 1.1, 2.0, 2.5, 10, 1e9, INF, -INF, NAN, 'a', None, True, np.int64(2)] + list(na(0.0)) + list(na(1.0))
PAIRS = [None, 5, 'ab', [1, 2], (1,), (1, 2, 3), ()] + [(a, b) for a in PV for b in PV]
cnt = collections.Counter(); bad = collections.defaultdict(list)
for field, dom in DOM.items():
    vals = PAIRS if 'range' in field else SCAL
    for v in vals:
        kw = dict(BASE); kw[field] = v
        try:
            verdict = dom(v)
        except Exception as e:
            verdict = 'ORACLE-ERR %r' % e
        try:
            p = P(**kw); out = 'accepted'
        except ValueError: out = 'ValueError'
        except Exception as e: out = type(e).__name__
        ok = (verdict == A and out == 'accepted') or (verdict == R and out == 'ValueError') or (verdict == E and out in ('accepted', 'ValueError'))
        cnt[(verdict, out)] += 1
        if not ok and len(bad[(field, verdict, out)]) < 4: bad[(field, verdict, out)].append(repr(v))
for k, v in sorted(cnt.items()): print(v, k)
for k, v in bad.items(): print('MISMATCH', k, v)
