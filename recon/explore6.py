import sys, traceback, collections, warnings
import numpy as np, pandas as pd
warnings.filterwarnings('ignore')
from matched_markets.methodology import geoeligibility, tbrmatchedmarkets, tbrmmdata, tbrmmdesignparameters
GE = geoeligibility.GeoEligibility
ROWS = [(0,0,1),(0,1,0),(1,0,0),(1,1,1),(0,1,1),(1,0,1),(1,1,0)]
cnt=collections.Counter(); ex={}
for seed in range(int(sys.argv[1]), int(sys.argv[2])):
    rng=np.random.default_rng(seed)
    ng = int(rng.choice([1,1,2,2,3,4])); nt=int(rng.integers(1,5)); nd = int(rng.integers(nt+3,nt+12))
    base = rng.normal(100,20,nd); dates = pd.date_range('2020-01-01', periods=nd); rows=[]
    for g in range(ng):
        y = rng.uniform(0.2,3)*base + rng.normal(0, rng.choice([1,10,40]), nd)
        rows += [(d,str(g+1),v) for d,v in zip(dates,y)]
    df = pd.DataFrame(rows, columns=['date','geo','response'])
    style=rng.choice(['allc','allt','allx','fixedonly','mixed','none'])
    pick={'allc':[2,5],'allt':[1,4],'allx':[0],'fixedonly':[1,2],'mixed':list(range(7))}
    el=None
    if style!='none': el=pd.DataFrame([(str(g+1),)+ROWS[rng.choice(pick[style])] for g in range(ng)],columns=['geo','control','treatment','exclude'])
    kw=dict(n_test=nt, iroas=float(rng.choice([0.0,1.0,3.0])))
    if rng.random()<0.4: kw['volume_ratio_tolerance']=float(rng.choice([0.001,0.1,2.0]))
    if rng.random()<0.4: kw['geo_ratio_tolerance']=float(rng.choice([0.001,0.5,2.0]))
    if rng.random()<0.4: kw['treatment_share_range']=(0.001,0.002) if rng.random()<.5 else (0.3,0.7)
    if rng.random()<0.4: kw['budget_range']=(0.0,1e-6) if rng.random()<.5 else (1e9,1e10)
    if rng.random()<0.4: kw['treatment_geos_range']=(5,9) if rng.random()<.5 else (1,1)
    if rng.random()<0.4: kw['control_geos_range']=(5,9) if rng.random()<.5 else (1,1)
    if rng.random()<0.3: kw['n_geos_max']=2
    if rng.random()<0.3: kw['n_pretest_max']=nt+3
    kw['n_designs']=int(rng.choice([1,3,1000]))
    for method in ['exhaustive_search','greedy_search']:
        try:
            data=tbrmmdata.TBRMMData(df,'response',GE(el) if el is not None else None)
            mm=tbrmatchedmarkets.TBRMatchedMarkets(data,tbrmmdesignparameters.TBRMMDesignParameters(**kw))
            r=getattr(mm,method)(); cnt[(method,'ok',min(len(r),1))]+=1
        except Exception as e:
            tb=traceback.extract_tb(e.__traceback__); fr=[f for f in tb if 'matched_markets' in f.filename][-1]
            key=(method,type(e).__name__, fr.name, fr.lineno, str(e)[:50]); cnt[key]+=1; ex.setdefault(key,(seed,style,kw))
for k,v in sorted(cnt.items(), key=lambda x:-x[1]): print(v,k,ex.get(k))
