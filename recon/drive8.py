import sys
exec(open('oracle1.py').read())
exec(open('explore1.py').read().split("cnt=collections.Counter()")[0].split("ROWS = ")[1].split("\n",1)[1])  # gen()
cnt=collections.Counter(); ex={}
def note(k, info):
    cnt[k]+=1; ex.setdefault(k, info)
def run(df,el,kw,method):
    data=tbrmmdata.TBRMMData(df,'response',GE(el) if el is not None else None)
    mm=tbrmatchedmarkets.TBRMatchedMarkets(data,P(**kw))
    return getattr(mm,method)()
def sig(r, ren=None, c=1.0):
    out=[]
    for d in r:
        T=frozenset((ren or (lambda z:z))(g) for g in d.treatment_geos); C=frozenset((ren or (lambda z:z))(g) for g in d.control_geos)
        s=d.score.score
        out.append((T,C,tuple(s[:5]),s[5]*c, d.diag.required_impact/c, d.diag.corr))
    return out
def same(a,b):
    if len(a)!=len(b): return False
    for x,y in zip(a,b):
        if x[:3]!=y[:3]: return False
        for u,v in zip(x[3:],y[3:]):
            if abs(u-v)>1e-9*max(abs(u),abs(v)): return False
    return True
for seed in range(int(sys.argv[1]), int(sys.argv[2])):
    rng=np.random.default_rng(seed)
    df,el,kw=gen(rng)
    for method in ['exhaustive_search','greedy_search']:
        try: base=sig(run(df,el,kw,method))
        except Exception as e: note((method,'exc',type(e).__name__),seed); continue
        # shuffle rows
        df2=df.sample(frac=1.0,random_state=seed).reset_index(drop=True)
        if not same(base,sig(run(df2,el,kw,method))): note((method,'shuffle differs'),seed)
        # date shift
        df3=df.copy(); df3['date']=df3['date']+pd.Timedelta(days=1000)
        if not same(base,sig(run(df3,el,kw,method))): note((method,'dateshift differs'),seed)
        # int ids
        df4=df.copy(); df4['geo']=df4['geo'].astype(int)
        el4=None
        if el is not None: el4=el.copy(); el4['geo']=el4['geo'].astype(int)
        if not same(base,sig(run(df4,el4,kw,method))): note((method,'int ids differs'),seed)
        # rename
        ren=lambda g: 'zz'+str(9-int(g))
        df5=df.copy(); df5['geo']=df5['geo'].map(ren)
        el5=None
        if el is not None: el5=el.copy(); el5['geo']=el5['geo'].map(ren)
        inv=lambda g: str(9-int(g[2:]))
        if not same(base,sig(run(df5,el5,kw,method),ren=inv)): note((method,'rename differs'),seed)
        # scale
        c=float(rng.choice([0.25,4.0,1024.0]))
        df6=df.copy(); df6['response']=df6['response']*c
        kw6=dict(kw)
        if 'budget_range' in kw: kw6['budget_range']=(kw['budget_range'][0]*c,kw['budget_range'][1]*c)
        r6=run(df6,el,kw6,method)
        s6=sig(r6, c=c if 'budget_range' not in kw or method=='greedy_search' else 1.0)
        s6=[(a,b,t,inv_,ri,corr) for (a,b,t,inv_,ri,corr) in s6]
        # required impact scales by c: compare ri/c
        s6=[(a,b,t,inv_,ri,corr) for (a,b,t,inv_,ri,corr) in s6]
        if not same([x[:3]+(x[5],) for x in base],[x[:3]+(x[5],) for x in s6]): note((method,'scale differs'),(seed,c))
        cnt[(method,'ok',len(base)>0)]+=1
for k,v in sorted(cnt.items(), key=lambda x:-x[1]): print(v,k, ex.get(k))
