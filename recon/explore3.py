import warnings, traceback
import numpy as np, pandas as pd
warnings.filterwarnings('ignore')
from matched_markets.methodology import geoeligibility, tbrmatchedmarkets, tbrmmdata, tbrmmdesignparameters, tbrmmdiagnostics, tbr
P=tbrmmdesignparameters.TBRMMDesignParameters
# (1) C10 repeat search_results
rng=np.random.default_rng(1)
nd=20; base=rng.normal(100,20,nd); dates=pd.date_range('2020-01-01',periods=nd)
rows=[]
for g in range(4):
    y=(g+1)*base+rng.normal(0,5,nd)
    rows+= [(d,'g%d'%g,v) for d,v in zip(dates,y)]
df=pd.DataFrame(rows,columns=['date','geo','response'])
par=P(n_test=3,iroas=1.0,n_designs=3)
mm=tbrmatchedmarkets.TBRMatchedMarkets(tbrmmdata.TBRMMData(df,'response'),par)
r=mm.exhaustive_search(); print([ (d.treatment_geos,d.control_geos) for d in r])
try: print(mm.search_results())
except Exception as e: print('C10 second search_results:',type(e).__name__,e)
import dataclasses
before=dataclasses.asdict(par)
mm=tbrmatchedmarkets.TBRMatchedMarkets(tbrmmdata.TBRMMData(df,'response'),par)
g=mm.greedy_search(); print('greedy', [(d.treatment_geos,d.control_geos) for d in g])
print('C10 params changed:', before!=dataclasses.asdict(par), dataclasses.asdict(par)['treatment_geos_range'], dataclasses.asdict(par)['control_geos_range'])
# (2) C08
d=tbrmmdiagnostics.TBRMMDiagnostics(base+rng.normal(0,1,nd),par)
d.x=base+rng.normal(0,1,nd); print('tests_ok good x',d.tests_ok, d.corr)
d.x=rng.normal(0,1,nd); print('tests_ok after bad x (stale?)',d.tests_ok, d.corr, d.corr_test)
# (4) C17
for f in ['n_test','n_geos_max','n_pretest_max','n_designs']:
    kw=dict(n_test=3,iroas=1.0); kw[f]=float('inf')
    try: P(**kw); print(f,'inf accepted')
    except Exception as e: print(f,'inf ->',type(e).__name__)
for f,v in [('iroas',float('inf')),('volume_ratio_tolerance',float('inf')),('budget_range',(0.0,float('inf'))),('n_test',True),('n_test',np.int64(3)),('iroas',np.float64(2)),('n_test',3.0),('treatment_geos_range',[1,2]),('treatment_geos_range',(1.0,2.0)), ('n_test', 10**400)]:
    kw=dict(n_test=3,iroas=1.0); kw[f]=v
    try: P(**kw); print(f,repr(v)[:20],'accepted')
    except Exception as e: print(f,repr(v)[:20],'->',type(e).__name__, e)
