"""Recon: C07/C18 with the post-analysis colab's layout (assignment column, control=2/treatment=1, excluded geos, period -1 after cooldown)."""
import sys, collections, warnings
import numpy as np, pandas as pd
warnings.simplefilter('ignore')
from matched_markets.methodology import tbr_iroas
cnt=collections.Counter(); ex={}
def note(k,i): cnt[k]+=1; ex.setdefault(k,i)
for seed in range(int(sys.argv[1]),int(sys.argv[2])):
    rng=np.random.default_rng(seed)
    n_pre=int(rng.integers(8,25)); n_test=int(rng.integers(2,8)); n_cool=int(rng.integers(1,4)); n_after=int(rng.integers(0,3))
    n=n_pre+n_test+n_cool+n_after
    dates=pd.date_range('2021-03-01',periods=n); period=np.array([0]*n_pre+[1]*n_test+[2]*n_cool+[-1]*n_after)
    base=rng.normal(100,15,n); rows=[]
    for g in range(6):
        grp=[2,1,-1][g%3]
        y=np.round(((1+g)*base+rng.normal(0,5,n))*64)/64+ (40*(period==1) if grp==1 else 0)
        cost=20.0*(period==1) if grp==1 else np.zeros(n)
        rows+=[(dates[i],g,y[i],cost[i],grp,period[i]) for i in range(n)]
    df=pd.DataFrame(rows,columns=['date','geo','response','cost','assignment','period'])
    with warnings.catch_warnings():
        warnings.simplefilter('ignore')
        m=tbr_iroas.TBRiROAS(use_cooldown=True); m.fit(df,key_group='assignment',group_control=2,group_treatment=1)
        try: s=m.summary(level=0.8,tails=2,random_state=1); cnt[('summary ok',n_after>0)]+=1
        except Exception as e: note(('summary',type(e).__name__,str(e)[:50]),seed)
        for metric in ('tbr_response','tbr_cost'):
            try: r=m.estimate_pointwise_and_cumulative_effect(metric,level=0.8,tails=2); cnt[('pointwise ok',metric,n_after>0)]+=1
            except Exception as e: note(('pointwise',metric,n_after>0,type(e).__name__,str(e)[:50]),seed)
for k,v in sorted(cnt.items(),key=lambda x:-x[1]): print(v,k,ex.get(k))
