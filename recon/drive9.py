import warnings
import numpy as np, pandas as pd
from matched_markets.methodology import geoeligibility
GE=geoeligibility.GeoEligibility
def t(name, df, **kw):
    try:
        g=GE(df); a=g.get_eligible_assignments(**kw) if kw is not None else None
        print(name,'-> accepted', list(g.data.index), g.data.dtypes.tolist()[:1])
    except Exception as e: print(name,'->',type(e).__name__,str(e)[:70])
base=pd.DataFrame({'geo':['a','b'],'control':[1,0],'treatment':[0,1],'exclude':[1,1]})
t('base',base)
t('empty',base.iloc[0:0])
t('bool',base.assign(control=[True,False]))
t('float',base.assign(control=[1.0,0.0]))
t('half',base.assign(control=[0.5,0.0]))
t('nan',base.assign(control=[np.nan,0.0]))
t('none',base.assign(control=[None,0]))
t('str',base.assign(control=['1','0']))
t('two',base.assign(control=[2,0]))
t('neg',base.assign(control=[-1,0]))
t('zero row',base.assign(control=[0,0],treatment=[0,1],exclude=[0,1]))
t('dup geo',base.assign(geo=['a','a']))
t('int/str dup',base.assign(geo=[1,'1']))
t('index geo',base.set_index('geo'))
t('missing col',base.drop(columns='exclude'))
t('no geo',base.drop(columns='geo'))
t('extra col',base.assign(foo=[1,2]))
t('geo both',base.set_index('geo',drop=False))
t('named index other',base.set_index(pd.Index([5,6],name='idx')))
t('index named control', base.drop(columns='control').set_index(pd.Index([1,0],name='control')))
d2=pd.concat([base,base[['control']].rename(columns={'control':'control'})],axis=1); t('dup col',d2)
g=GE(base)
for geos,ind in [(['b','a'],True),(['b'],False),([],False),([],True),(None,True),(('b','a'),True)]:
    try:
        a=g.get_eligible_assignments(geos,ind); print(geos,ind,a)
    except Exception as e: print(geos,ind,type(e).__name__,e)
