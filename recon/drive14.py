import sys, collections, warnings, math
import numpy as np, pandas as pd
from scipy import stats
warnings.simplefilter('ignore')
from matched_markets.methodology import tbr, tbrmmdiagnostics, tbrmmdesignparameters
cnt=collections.Counter(); ex={}
def note(k,i): cnt[k]+=1; ex.setdefault(k,i)
def closed(x_pre,y_pre,x_t,y_t):
    n=len(x_pre); xm=x_pre.mean(); ym=y_pre.mean(); sxx=((x_pre-xm)**2).sum(); b=((x_pre-xm)*(y_pre-ym)).sum()/sxx; a=ym-b*xm
    res=y_pre-a-b*x_pre; s2=(res**2).sum()/(n-2)
    eff=y_t-a-b*x_t; loc=np.cumsum(eff); t=np.arange(1,len(x_t)+1); cx=np.cumsum(x_t-xm)
    sc=np.sqrt(s2*(t+t**2/n+cx**2/sxx))
    return loc,sc,n-2
for seed in range(int(sys.argv[1]),int(sys.argv[2])):
    rng=np.random.default_rng(seed)
    n_pre=int(rng.integers(3,20)); n_test=int(rng.integers(1,8)); n_cool=int(rng.integers(0,4)); cool=bool(rng.integers(0,2))
    n_un_before=int(rng.integers(0,3)); n_un_after=int(rng.integers(0,3))
    N=n_un_before+n_pre+n_test+n_cool+n_un_after
    dates=pd.date_range('2020-01-01',periods=N)
    period=np.array([-1]*n_un_before+[0]*n_pre+[1]*n_test+[2]*n_cool+[3]*n_un_after)
    base=rng.normal(100,20,N)
    ngc=int(rng.integers(1,4)); ngt=int(rng.integers(1,4)); ngu=int(rng.integers(0,3))
    rows=[]; X=np.zeros(N); Y=np.zeros(N)
    for g in range(ngc+ngt+ngu):
        grp=1 if g<ngc else (2 if g<ngc+ngt else int(rng.choice([-1,0,7])))
        y=np.round(((g+1)*base+rng.normal(0,5,N))*64)/64
        if grp==1: X+=y
        if grp==2: y=y+30*(period==1); Y+=y
        rows+=[(g,dates[i],y[i],grp,period[i]) for i in range(N)]
    df=pd.DataFrame(rows,columns=['geo','date','response','group','period']).sample(frac=1.0,random_state=seed).set_index('geo')
    m=tbr.TBR(use_cooldown=cool); m.fit(df,'response')
    an=(period==1)|((period==2)&cool)
    loc,sc,dfree=closed(X[period==0],Y[period==0],X[an],Y[an])
    if an.sum()==0: continue
    d=m.causal_cumulative_distribution()
    if not (np.allclose(d.kwds['loc'],loc,rtol=1e-8,atol=1e-6) and np.allclose(d.kwds['scale'],sc,rtol=1e-7) and d.args[0]==dfree): note('posterior mismatch',(seed,d.kwds['scale'][:3],sc[:3]))
    lvl=float(rng.uniform(0.5,0.99)); tails=int(rng.integers(1,3)); thr=float(rng.normal(0,50)); rs=float(rng.choice([1.0,0.5,0.01,3.0]))
    s=m.summary(level=lvl,threshold=thr,tails=tails,report='all',rescale=rs)
    alpha=(1-lvl)/tails
    lo=rs*loc+rs*sc*stats.t.ppf(alpha,dfree); up=np.full(len(loc),np.inf) if tails==1 else rs*loc+rs*sc*stats.t.ppf(1-alpha,dfree)
    pr=stats.t.sf((thr-rs*loc)/(rs*sc),dfree)
    if n_pre>3:
        if not np.allclose(s.estimate.values,rs*loc,rtol=1e-8,atol=1e-6): note('estimate',seed)
        if not np.allclose(s.precision.values,s.estimate.values-s.lower.values,rtol=1e-7,atol=1e-7): note('precision',seed)
    if not np.allclose(s.lower.values,lo,rtol=1e-7,atol=1e-6): note('lower',seed)
    if tails==2 and not np.allclose(s.upper.values,up,rtol=1e-7,atol=1e-6): note('upper',seed)
    if tails==1 and not np.isinf(s.upper.values).all(): note('upper inf',seed)
    if not np.allclose(s.probability.values,pr,rtol=1e-7,atol=1e-12): note('prob',(seed,))
    if len(s)!=an.sum(): note('rows',seed)
    cnt[('ok',cool,n_pre==3)]+=1
for k,v in sorted(cnt.items(),key=lambda x:-x[1] if isinstance(x[1],int) else 0): print(v,k,ex.get(k))
