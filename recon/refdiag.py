import math, numpy as np
from scipy import stats
BB_BOUND=3.0; DW=(1.5,2.5); AA_P=0.2; MINTP=3
def ols(x,y):
    n=len(x); xm=x.mean(); ym=y.mean()
    sxx=((x-xm)**2).sum(); sxy=((x-xm)*(y-ym)).sum()
    if sxx==0: return None
    b=sxy/sxx; a=ym-b*xm
    resid=y-a-b*x
    sigma=math.sqrt((resid**2).sum()/(n-2)) if n>2 else float('nan')
    # library: np.std(resid, ddof=2) = sqrt(sum((r-mean r)^2)/(n-2)); mean r ~ 0
    return a,b,sigma,resid
def impact_term(n_test,n,flevel,sig,pw):
    phi=stats.f.ppf(flevel,1,n-1)
    tq=stats.t.ppf(sig,n-2)+stats.t.ppf(pw,n-2)
    return tq*n_test*math.sqrt(phi*(n+1)/(n*n_test*(n-1))+1/n+1/n_test)
def ref(x,y,par):
    x=np.asarray(x,float); y=np.asarray(y,float); n=len(y)
    out={}
    xm,ym=x.mean(),y.mean()
    sxx=((x-xm)**2).sum(); syy=((y-ym)**2).sum(); sxy=((x-xm)*(y-ym)).sum()
    corr=sxy/math.sqrt(sxx*syy) if sxx>0 and syy>0 else float('nan')
    out['corr']=corr
    out['required_impact']=impact_term(par.n_test,n,par.flevel,par.sig_level,par.power_level)*math.sqrt(syy/(n-2))*math.sqrt(1-corr**2) if corr==corr and abs(corr)<1 else None
    out['corr_test']=bool(corr>=par.min_corr)
    fit=ols(x,y)
    if fit is None:
        out['fit']=None; out['bb']=False; out['dw']=None; out['aa']=None
        return out
    a,b,sigma,resid=fit
    out['fit']=(a,b,sigma)
    k=np.arange(1,n)
    bounds=BB_BOUND*np.sqrt(k*(1-k/n))
    cs=np.abs(np.cumsum(resid/sigma)[:-1])
    out['bb']=not bool((cs>bounds).any()); out['bb_margin']=float(np.min(np.abs(cs-bounds)/bounds))
    d=np.diff(resid); dw=(d**2).sum()/(resid**2).sum()
    out['dwstat']=dw; out['dw']=bool(DW[0]<dw<DW[1])
    nt=par.n_test; npre=n-nt
    if npre<MINTP: out['aa']=None
    else:
        f2=ols(x[:npre],y[:npre])
        if f2 is None: out['aa']='nofit'
        else:
            a2,b2,s2,_=f2
            x0=x[:npre]; dx=x[npre:].mean()-x0.mean(); dy=y[npre:].mean()-y[:npre].mean()
            est=nt*(dy-b2*dx)
            dv=dx**2/(((x0-x0.mean())**2).sum()/npre)
            tq=stats.t.ppf(par.sig_level,npre-2)
            scale=nt*s2*math.sqrt((1+dv)/npre+1/nt)
            cihw=tq*scale
            lo,hi=est-cihw,est+cihw
            out['aa_bounds']=(lo,hi)
            if lo*hi<0: out['aa']=True; out['aa_prob']=None
            else:
                tm=min(abs(lo),abs(hi)); tqs=cihw/s2; ps=s2*math.sqrt(1/npre+1/nt)
                p=1-stats.t.cdf(tqs-tm/ps,npre-2)+stats.t.cdf(-tqs-tm/ps,npre-2)
                out['aa_prob']=p; out['aa']=bool(p<=AA_P)
    return out
