import sys, collections, warnings
import numpy as np, pandas as pd
warnings.simplefilter('ignore')
exec(open('explore4.py').read().split("rng=np.random.default_rng(0)")[0])
cnt=collections.Counter(); ex={}
def note(k,i): cnt[k]+=1; ex.setdefault(k,i)
for seed in range(int(sys.argv[1]),int(sys.argv[2])):
    rng=np.random.default_rng(seed)
    n_pre=int(rng.integers(4,25)); n_test=int(rng.integers(1,8)); n_cool=int(rng.integers(1,5)); fc=bool(rng.integers(0,2))
    df=frame(rng,n_pre,n_test,n_cool,ngc=int(rng.integers(1,4)),ngt=int(rng.integers(1,4)),fixed_cost=fc,lift=float(rng.choice([0,5,50])))
    df=df.sample(frac=1.0,random_state=seed)
    tails=int(rng.integers(1,3)); lvl=float(rng.choice([0.6,0.8,0.9,0.95]))
    with warnings.catch_warnings():
        warnings.simplefilter('ignore')
        m=tbr_iroas.TBRiROAS(use_cooldown=True); m.fit(df)
        for metric,col,tb in [('tbr_response','response',m.tbr_response),('tbr_cost','cost',m.tbr_cost)]:
            try: r=m.estimate_pointwise_and_cumulative_effect(metric,level=lvl,tails=tails)
            except ValueError as e: note(('ValueError',metric,fc,str(e)[:30]),seed); continue
            obs=df[df.group==2].groupby('date')[col].sum().sort_index()
            cf=r.counterfactual.sort_values('date'); pw=r.pointwise_difference.sort_values('date'); cu=r.cumulative_effect.sort_values('date')
            if len(cf)!=len(obs): note(('len',metric,fc),seed); continue
            if not np.allclose(cf.estimate.values+pw.estimate.values, obs.values, rtol=1e-9, atol=1e-7): note(('cf+pw!=obs',metric,fc),seed)
            # pre residuals
            if not (fc and metric=='tbr_cost'):
                x=df[df.group==1].groupby('date')[col].sum().sort_index().values; y=obs.values
                b,a=np.polyfit(x[:n_pre],y[:n_pre],1)
                res=y[:n_pre]-a-b*x[:n_pre]
                if not np.allclose(pw.estimate.values[:n_pre],res,atol=1e-6*max(1,np.abs(y).max())): note(('pre resid',metric,fc),seed)
                d=tb.causal_cumulative_distribution(time=-1); tp=(1-lvl)/tails
                last=cu.iloc[-1]
                if not (np.isclose(last.estimate,d.kwds['loc'],rtol=1e-7,atol=1e-6) and np.isclose(last.lower,d.ppf(tp)) and np.isclose(last.upper,d.ppf(1-tp))): note(('cum last',metric,fc),(seed,last.estimate,d.kwds['loc']))
            for nm,s in [('cf',cf),('pw',pw),('cu',cu)]:
                if not ((s.lower<=s.estimate+1e-9).all() and (s.estimate<=s.upper+1e-9).all()): note(('order',nm,metric,fc),seed)
            cnt[('ok',metric,fc)]+=1
for k,v in sorted(cnt.items(),key=lambda x:-x[1]): print(v,k,ex.get(k))
