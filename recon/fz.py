#!/venv/bin/python
import sys, atheris
with atheris.instrument_imports(include=['matched_markets']):
    from matched_markets.methodology import utils
import pandas as pd
n=[0]
def one(data):
    n[0]+=1
    fdp=atheris.FuzzedDataProvider(data)
    k=fdp.ConsumeIntInRange(0,4)
    lst=[fdp.ConsumeUnicodeNoSurrogates(fdp.ConsumeIntInRange(0,24)) for _ in range(k)]
    try:
        r=utils.expand_time_windows(utils.find_days_to_exclude(lst))
    except ValueError: return
    assert len(set(r))==len(r)
atheris.Setup(sys.argv, one)
atheris.Fuzz()
