"""Recon: stateful probe of TBRMMDiagnostics cache invalidation (C08)."""
import os, sys, math, warnings, collections
import numpy as np
from hypothesis import settings, strategies as st, HealthCheck, seed
from hypothesis.stateful import RuleBasedStateMachine, rule, precondition, initialize, run_state_machine_as_test
warnings.simplefilter('ignore')
from matched_markets.methodology import tbrmmdiagnostics, tbrmmdesignparameters
D = tbrmmdiagnostics.TBRMMDiagnostics; P = tbrmmdesignparameters.TBRMMDesignParameters
N = 16
def pool():
    d = np.arange(N); base = 100 + 5 * np.sin(d) + d
    return [base * 2 + ((7 * d) % 5), base + ((3 * d) % 7) * 0.25, 50 + ((11 * d) % 13) * 3.0, base * 0.5 + ((5 * d) % 3),
            np.concatenate([base[:-3], base[-3:] + 40]) + ((2 * d) % 3), np.full(N, 7.0)]
POOL = pool()
QS = ['corr', 'required_impact', 'pretestfit', 'bbtest', 'dwtest', 'aatest', 'corr_test', 'tests_ok']
def get(o, q):
    try: return norm(getattr(o, q))
    except ValueError as e: return ('ValueError',)
def norm(v):
    if v is None: return None
    if isinstance(v, tuple): return tuple(norm(x) for x in v)
    if isinstance(v, np.ndarray): return tuple(norm(float(x)) for x in v)
    if isinstance(v, (bool, np.bool_)): return bool(v)
    if isinstance(v, (float, np.floating)): return 'nan' if math.isnan(v) else float(v)
    return v
SKIP = set(os.environ.get('SKIP', '').split(','))
class M(RuleBasedStateMachine):
    @initialize(y=st.integers(0, 4), nt=st.integers(1, 5))
    def init(self, y, nt):
        self.par = P(n_test=nt, iroas=1.0); self.yi = y; self.xi = None
        self.obj = D(POOL[y], self.par)
    def fresh(self):
        f = D(POOL[self.yi], self.par)
        if self.xi is not None: f.x = POOL[self.xi]
        return f
    @rule(i=st.integers(0, 5))
    def set_x(self, i): self.obj.x = POOL[i]; self.xi = i
    @rule(i=st.integers(0, 4))
    def set_y(self, i): self.obj.y = POOL[i]; self.yi = i; self.xi = None
    @rule()
    def clear_x(self): self.obj.x = None; self.xi = None
    @rule(q=st.sampled_from(QS))
    def read(self, q):
        if q in SKIP: return
        a = get(self.obj, q); b = get(self.fresh(), q)
        assert a == b, (q, a, b)
    def teardown(self):
        if hasattr(self, 'obj'):
            for q in QS:
                if q in SKIP: continue
                a = get(self.obj, q); b = get(self.fresh(), q)
                assert a == b, ('teardown', q, a, b)
run_state_machine_as_test(seed(int(os.environ.get('VERIF_SEED', '1')))(M),
    settings=settings(max_examples=int(sys.argv[1]), stateful_step_count=25, deadline=None, database=None,
                      suppress_health_check=list(HealthCheck), report_multiple_bugs=False))
print('no failure')
