import sys, json, warnings, hashlib
import numpy as np, pandas as pd
warnings.simplefilter('ignore')
exec(open('explore1.py').read().split("cnt=collections.Counter()")[0])
out=[]
for seed in range(0,120):
    rng=np.random.default_rng(seed); df,el,kw=gen(rng)
    # rename geos to strings whose hash order varies
    ren=lambda g:'geo_'+str(g)
    df['geo']=df['geo'].map(ren)
    if el is not None: el['geo']=el['geo'].map(ren)
    for method in ['exhaustive_search','greedy_search']:
        try:
            data=tbrmmdata.TBRMMData(df,'response',GE(el) if el is not None else None)
            mm=tbrmatchedmarkets.TBRMatchedMarkets(data,tbrmmdesignparameters.TBRMMDesignParameters(**kw))
            r=getattr(mm,method)()
            out.append([(sorted(d.treatment_geos),sorted(d.control_geos),[float(x) for x in d.score.score]) for d in r])
        except Exception as e: out.append(type(e).__name__)
print(hashlib.sha1(json.dumps(out).encode()).hexdigest())
