"""Prototype brute-force oracle for C01/C02/C03/C13 (exploration only)."""
import sys, traceback, collections, warnings, copy, itertools, math
from fractions import Fraction
import numpy as np, pandas as pd
warnings.filterwarnings('ignore')
from matched_markets.methodology import geoeligibility, tbrmatchedmarkets, tbrmmdata, tbrmmdesignparameters, tbrmmdiagnostics, tbrmmscore
GE = geoeligibility.GeoEligibility
P = tbrmmdesignparameters.TBRMMDesignParameters
D = tbrmmdiagnostics.TBRMMDiagnostics
ROWS = [(0,0,1),(0,1,0),(1,0,0),(1,1,1),(0,1,1),(1,0,1),(1,1,0)]

def canon(df):
    geos = sorted(set(df.geo.astype(str)))
    dates = sorted(set(df.date))
    M = {g: np.zeros(len(dates)) for g in geos}
    cnt = {g: np.zeros(len(dates)) for g in geos}
    di = {d:i for i,d in enumerate(dates)}
    for g,d,v in zip(df.geo.astype(str), df.date, df.response):
        M[g][di[d]] += v; cnt[g][di[d]] += 1
    for g in geos:
        M[g] = np.where(cnt[g]>0, M[g]/np.maximum(cnt[g],1), 0.0)   # pivot_table mean aggregation
    return geos, dates, M

def impact_term(par, n):
    from scipy import stats
    phi = stats.f.ppf(par.flevel, 1, n-1)
    tq = stats.t.ppf(par.sig_level, n-2) + stats.t.ppf(par.power_level, n-2)
    return tq * par.n_test * math.sqrt(phi*(n+1)/(n*par.n_test*(n-1)) + 1/n + 1/par.n_test)

def req_impact(y, par, rho):
    n=len(y); 
    return impact_term(par,n) * np.std(y, ddof=2) * math.sqrt(1-rho**2)

def oracle_space(df, el, par):
    geos, dates, M = canon(df)
    means = {g: M[g].mean() for g in geos}
    tot = sum(means.values())
    share = {g: means[g]/tot for g in geos}
    if el is None:
        elig = {g:(1,1,1) for g in geos}
    else:
        elig = {str(r[0]):tuple(r[1:]) for r in el}
        missing_required = [g for g,r in elig.items() if g not in M and r[2]==0]
        if missing_required: return ('ValueError',)
        elig = {g:r for g,r in elig.items() if g in M}
    W = {g: M[g][-par.n_pretest_max:] for g in geos}
    assignable = {g for g,r in elig.items() if r!=(0,0,1)}
    must = {g for g,r in elig.items() if r[2]==0}
    gimp = {g: req_impact(W[g], par, par.rho_max) for g in geos}
    too_large = set(); over_budget=set()
    if par.treatment_share_range is not None:
        too_large = {g for g in geos if share[g] > par.treatment_share_range[1]}
    if par.budget_range is not None:
        over_budget = {g for g in geos if gimp[g] > par.budget_range[1]*par.iroas}
    adm = (assignable - too_large - over_budget) | must
    trunc_ambiguous=False
    if par.n_geos_max is not None and len(adm) > par.n_geos_max:
        order = sorted(adm, key=lambda g: -gimp[g])
        adm = set(order[:par.n_geos_max])
    return dict(geos=geos, M=M, W=W, share=share, elig=elig, adm=adm, must=must, gimp=gimp)

def enumerate_legal(sp):
    adm = sorted(sp['adm'])
    choices=[]
    for g in adm:
        c,t,x = sp['elig'][g]
        ch=[]
        if c: ch.append('c')
        if t: ch.append('t')
        if x: ch.append('x')
        choices.append(ch)
    for combo in itertools.product(*choices):
        T = frozenset(g for g,a in zip(adm,combo) if a=='t')
        C = frozenset(g for g,a in zip(adm,combo) if a=='c')
        if T and C: yield T,C

def in_rng(v, lo, hi, eps=0.0):
    return lo - eps <= v <= hi + eps

def constraints_ok(sp, par, T, C, lib_diag=None):
    """returns (ok, borderline) over size, georatio, volratio, share, budget"""
    nt,nc=len(T),len(C)
    if par.treatment_geos_range is not None and not (par.treatment_geos_range[0] <= nt <= par.treatment_geos_range[1]): return False
    if par.control_geos_range is not None and not (par.control_geos_range[0] <= nc <= par.control_geos_range[1]): return False
    if par.geo_ratio_tolerance is not None:
        tol = Fraction(par.geo_ratio_tolerance); r = Fraction(nc,nt)
        if not (1/(1+tol) <= r <= 1+tol): return False
    sh = sp['share']
    st = sum(sh[g] for g in T); sc = sum(sh[g] for g in C)
    if par.volume_ratio_tolerance is not None:
        tol = par.volume_ratio_tolerance
        if not (1/(1+tol) <= sc/st <= 1+tol): return False
    return True

def share_ok(sp, par, T, reading):
    if par.treatment_share_range is None: return True
    sh=sp['share']; st=sum(sh[g] for g in T)
    if reading=='admitted': st = st/sum(sh[g] for g in sp['adm'])
    lo,hi = par.treatment_share_range
    return lo <= st <= hi

def series(sp, S):
    return sum(sp['W'][g] for g in sorted(S))

def lib_score(sp, par, T, C):
    d = D(series(sp,T), par); d.x = series(sp,C)
    s = tbrmmscore.TBRMMScore(d).score
    return s, d
