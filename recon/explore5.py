import warnings, traceback, collections
import numpy as np, pandas as pd
warnings.filterwarnings('ignore')
exec(open('explore4.py').read().split("rng=np.random.default_rng(0)")[0])
rng=np.random.default_rng(0)
df=frame(rng,10,4,2,fixed_cost=True)
m=tbr_iroas.TBRiROAS(use_cooldown=True); m.fit(df)
print(m.summary(level=0.9,tails=2,random_state=1).T)
df=frame(rng,10,4,2,fixed_cost=False)
m=tbr_iroas.TBRiROAS(use_cooldown=True); m.fit(df)
print(m.summary(level=0.9,tails=2,random_state=1).T)
cnt=collections.Counter(); ex={}
for seed in range(300):
    rng=np.random.default_rng(seed)
    n_pre=int(rng.integers(3,15)); n_test=int(rng.integers(1,8)); n_cool=int(rng.integers(1,5))
    fc=bool(rng.integers(0,2))
    df=frame(rng,n_pre,n_test,n_cool,ngc=int(rng.integers(1,4)),ngt=int(rng.integers(1,4)),fixed_cost=fc, lift=float(rng.choice([0,5,50])))
    m=tbr_iroas.TBRiROAS(use_cooldown=True); m.fit(df)
    for metric in ['tbr_response','tbr_cost']:
        for tails in (1,2):
            lvl=float(rng.choice([0.6,0.8,0.9,0.99]))
            try:
                r=m.estimate_pointwise_and_cumulative_effect(metric,level=lvl,tails=tails); cnt[(metric,fc,'ok')]+=1
            except Exception as e:
                k=(metric,fc,type(e).__name__,str(e)[:70]); cnt[k]+=1; ex.setdefault(k,(seed,n_pre,n_test,n_cool,lvl,tails))
for k,v in sorted(cnt.items(),key=lambda x:-x[1]): print(v,k, ex.get(k))
