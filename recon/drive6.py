import warnings, datetime
import pandas as pd
from matched_markets.methodology import utils, common_classes
def pipe(lst):
    return utils.expand_time_windows(utils.find_days_to_exclude(lst))
tests=[['2020/01/01'],['2020/02/27 - 2020/03/02'],['2020/02/27-2020/03/02'],['2019/12/30 - 2020/01/02','2020/01/01','2020/01/01'],
 [''],['abc'],['2020/01/05 - 2020/01/01'],['2020/13/01'],['2020/02/30'],['2020-01-01'],['2020/01/01 - 2020/01/02 - 2020/01/03'],[' - '],['2020/01/01 - '],['2021/02/29'],
 ['1/2/2020'],['2020/1/1'],['99999/01/01'],['0001/01/01'],['2020/01/01 12:30'], [], ['2020/01/01 - 2020/01/01'], ['2020/01/01   -   2020/01/03'], ['20200101'], ['2020/01'], ['2020']]
for t in tests:
    try:
        r=pipe(t); print(repr(t),'->',sorted(r)[:6],len(r), type(r[0]).__name__ if r else None)
    except Exception as e: print(repr(t),'-> EXC',type(e).__name__,str(e)[:80])
