"""Recon: exhaustive GeoEligibility tables with <=3 rows over the 8 row types; all ordered subsets."""
import itertools, collections, warnings
import pandas as pd
from matched_markets.methodology import geoeligibility as ge
ROWS8 = list(itertools.product((0, 1), repeat=3))
CLS = {(1,0,0):'c_fixed',(0,1,0):'t_fixed',(0,0,1):'x_fixed',(1,1,0):'ct',(1,0,1):'cx',(1,1,1):'ctx',(0,1,1):'tx'}
cnt = collections.Counter(); bad = []
for n in range(0, 4):
    for rows in itertools.product(ROWS8, repeat=n):
        for ids in (['7','10','2'][:n], [7, 10, 2][:n]):
            for as_index in (False, True):
                df = pd.DataFrame({'geo': ids, 'control': [r[0] for r in rows], 'treatment': [r[1] for r in rows], 'exclude': [r[2] for r in rows]})
                if as_index: df = df.set_index('geo')
                legal = all(r != (0,0,0) for r in rows)
                try: g = ge.GeoEligibility(df); out = 'ok'
                except ValueError: out = 'VE'
                except Exception as e: out = type(e).__name__
                if (out == 'ok') != legal or out not in ('ok', 'VE'): bad.append((rows, ids, as_index, out)); continue
                cnt[out] += 1
                if out != 'ok': continue
                sid = [str(i) for i in ids]; rowof = dict(zip(sid, rows))
                if list(g.data.index) != sid: bad.append(('index', rows, list(g.data.index)))
                for k in range(1, n + 1):
                    for sub in itertools.permutations(sid, k):
                        for indices in (False, True):
                            a = g.get_eligible_assignments(list(sub), indices)
                            ref = lambda x: (sub[x] if indices else x)
                            names = ['c_fixed','t_fixed','x_fixed','ct','cx','ctx','tx']
                            sets = {nm: getattr(a, nm) for nm in names}
                            allset = set(range(k)) if indices else set(sub)
                            ok = a.all == allset and sum(len(s) for s in sets.values()) == k and set().union(*sets.values()) == allset
                            for nm, s in sets.items():
                                for m in s: ok = ok and CLS[rowof[ref(m)]] == nm
                            ok = ok and a.c == {m for m in allset if rowof[ref(m)][0]} and a.t == {m for m in allset if rowof[ref(m)][1]} and a.x == {m for m in allset if rowof[ref(m)][2]}
                            cnt['subset'] += 1
                            if not ok: bad.append(('partition', rows, sub, indices))
print(cnt, bad[:5])
