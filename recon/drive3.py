import sys, time
exec(open('oracle1.py').read())
cnt=collections.Counter(); ex={}
def note(k, info):
    cnt[k]+=1; ex.setdefault(k, info)
t0=time.time()
for seed in range(int(sys.argv[1]), int(sys.argv[2])):
    rng=np.random.default_rng(seed)
    ng=int(rng.integers(1,9)); nd=8
    rows=[]; dates=pd.date_range('2020-01-01',periods=nd)
    for g in range(ng):
        y=rng.normal(100,10,nd)*(g+1)
        rows+=[(d,str(g),v) for d,v in zip(dates,y)]
    df=pd.DataFrame(rows,columns=['date','geo','response'])
    elrows=[(str(g),)+ROWS[rng.integers(0,7)] for g in range(ng)]
    el=pd.DataFrame(elrows,columns=['geo','control','treatment','exclude'])
    kw=dict(n_test=2,iroas=1.0)
    if rng.random()<0.5: kw['geo_ratio_tolerance']=float(rng.choice([0.1,0.25,0.5,1.0,2.0,3.0]))
    if rng.random()<0.5:
        lo=int(rng.integers(1,5)); kw['treatment_geos_range']=(lo,int(lo+rng.integers(0,4)))
    if rng.random()<0.5:
        lo=int(rng.integers(1,5)); kw['control_geos_range']=(lo,int(lo+rng.integers(0,4)))
    par=P(**kw)
    sp=oracle_space(df,elrows,par)
    try:
        mm=tbrmatchedmarkets.TBRMatchedMarkets(tbrmmdata.TBRMMData(df,'response',GE(el)),par)
        n=mm.count_max_designs()
        # generator listing
        gen_pairs=set()
        gi=None
        for s in mm.treatment_group_size_range():
            for T in mm.treatment_group_generator(s):
                for C in mm.control_group_generator(T):
                    key=(frozenset(T),frozenset(C))
                    if key in gen_pairs: note('dup in generators',seed)
                    gen_pairs.add(key)
        gi=mm.data.geo_index
    except ValueError as e:
        note(('ValueError',str(e)[:40]),seed); continue
    brute=set()
    for T,C in enumerate_legal(sp):
        nt,nc=len(T),len(C)
        if par.treatment_geos_range and not par.treatment_geos_range[0]<=nt<=par.treatment_geos_range[1]: continue
        if par.control_geos_range and not par.control_geos_range[0]<=nc<=par.control_geos_range[1]: continue
        if par.geo_ratio_tolerance is not None:
            tol=Fraction(par.geo_ratio_tolerance)
            if not (1/(1+tol) <= Fraction(nc,nt) <= 1+tol): continue
        brute.add((T,C))
    genids={(frozenset(gi[i] for i in T),frozenset(gi[i] for i in C)) for T,C in gen_pairs}
    if n!=len(gen_pairs): note('count != generators',(seed,n,len(gen_pairs),elrows,kw))
    if genids!=brute: note('generators != brute',(seed,len(genids),len(brute),elrows,kw))
    cnt[('ok',min(len(brute),3))]+=1
print(time.time()-t0)
for k,v in sorted(cnt.items(), key=lambda x:-x[1] if isinstance(x[1],int) else 0): print(v,k, ex.get(k))
