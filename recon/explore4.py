import warnings, traceback
import numpy as np, pandas as pd
warnings.filterwarnings('ignore')
from matched_markets.methodology import tbr, tbr_iroas
def frame(rng, n_pre, n_test, n_cool, ngc=2, ngt=2, fixed_cost=True, lift=50.0):
    n=n_pre+n_test+n_cool
    dates=pd.date_range('2020-01-01',periods=n)
    period=np.array([0]*n_pre+[1]*n_test+[2]*n_cool)
    base=rng.normal(100,20,n)
    rows=[]
    for g in range(ngc+ngt):
        grp=1 if g<ngc else 2
        y=(g+1)*base+rng.normal(0,5,n)
        cost=np.zeros(n) if fixed_cost else np.abs(rng.normal(10,2,n))
        if grp==2:
            y=y+lift*(period==1); cost=cost+20.0*(period==1)
        for i in range(n): rows.append((g,dates[i],y[i],cost[i],grp,period[i]))
    df=pd.DataFrame(rows,columns=['geo','date','response','cost','group','period']).set_index('geo')
    return df
rng=np.random.default_rng(0)
for n_pre in [3,4,10]:
    df=frame(rng,n_pre,4,2)
    m=tbr.TBR(use_cooldown=True); m.fit(df,'response')
    for tails in (1,2):
        print(n_pre,tails); print(m.summary(level=0.9,tails=tails,report='all').to_string())
