import sys, collections, warnings
import numpy as np, pandas as pd
warnings.simplefilter('ignore')
from matched_markets.methodology import tbrmmdata, geoeligibility
GE=geoeligibility.GeoEligibility
ROWS=[(0,0,1),(0,1,0),(1,0,0),(1,1,1),(0,1,1),(1,0,1),(1,1,0)]
cnt=collections.Counter(); ex={}
def note(k,i): cnt[k]+=1; ex.setdefault(k,i)
for seed in range(int(sys.argv[1]),int(sys.argv[2])):
    rng=np.random.default_rng(seed)
    ng=int(rng.integers(1,7)); nd=int(rng.integers(3,12))
    ids=[str(i) for i in rng.choice(np.arange(1,30),ng,replace=False)]
    dates=pd.date_range('2020-01-01',periods=nd)
    rows=[]; cells={}
    for g in ids:
        for d in dates:
            if rng.random()<0.1 and len(rows)>0: continue
            v=float(np.round(rng.uniform(0,100)*1024)/1024); rows.append((d,g,v)); cells[(g,d)]=v
    df=pd.DataFrame(rows,columns=['date','geo','sales'])
    if rng.random()<0.5: df['geo']=df['geo'].astype(int)
    df=df.sample(frac=1.0,random_state=seed)
    present=sorted(set(g for g,_ in cells))
    mode=rng.choice(['none','equal','subset','superset'])
    el=None
    if mode!='none':
        geos=list(present)
        if mode=='subset' and len(geos)>1: geos=geos[:len(geos)//2+1]
        if mode=='superset': geos=geos+['x1','x2']
        el=pd.DataFrame([(g,)+ROWS[rng.integers(0,7)] for g in geos],columns=['geo','control','treatment','exclude'])
    try:
        d=tbrmmdata.TBRMMData(df,'sales',GE(el) if el is not None else None)
    except ValueError as e:
        miss=[r for r in el.values.tolist() if r[0] not in present and r[3]==0] if el is not None else []
        note(('ValueError', bool(miss)),seed); continue
    except Exception as e:
        note(('exc',type(e).__name__,mode),seed); continue
    if el is not None and [r for r in el.values.tolist() if r[0] not in present and r[3]==0]: note('expected ValueError',seed)
    means={g: sum(cells.get((g,dd),0.0) for dd in dates if any((gg,dd) in cells for gg in present))/len([dd for dd in dates if any((gg,dd) in cells for gg in present)]) for g in present}
    if set(d.df.index)!=set(present): note('index set',seed)
    mv=[means[g] for g in d.df.index]
    if any(mv[i]<mv[i+1]-1e-12 for i in range(len(mv)-1)): note('not sorted',seed)
    tot=sum(means.values())
    if any(abs(d.geo_share[g]-means[g]/tot)>1e-12 for g in present): note('share',seed)
    elig={str(r[0]):tuple(r[1:]) for r in el.values.tolist()} if el is not None else {g:(1,1,1) for g in present}
    exp_assignable={g for g,r in elig.items() if g in present and r!=(0,0,1)}
    if d.assignable!=exp_assignable: note('assignable',(seed,d.assignable,exp_assignable))
    if set(d.geo_eligibility.data.index)!={g for g in elig if g in present}: note('elig index',seed)
    cnt[('ok',mode)]+=1
for k,v in sorted(cnt.items(),key=lambda x:-x[1]): print(v,k,ex.get(k))
