import sys
exec(open('oracle1.py').read())
exec(open('explore1.py').read().split("cnt=collections.Counter()")[0].split("ROWS = ")[1].split("\n",1)[1])  # gen()
cnt=collections.Counter(); ex={}
def note(k, info):
    cnt[k]+=1; ex.setdefault(k, info)
def trt_size_range(sp, par):
    el=sp['elig']; adm=sp['adm']
    t=[g for g in adm if el[g][1]==1]; tf=[g for g in adm if el[g]==(0,1,0)]
    others=[g for g in adm if el[g] in ((1,0,1),(1,0,0))]
    lo=max(1,len(tf)); hi=len(t) - (0 if others else 1)
    if par.treatment_geos_range is not None:
        lo=max(lo,par.treatment_geos_range[0]); hi=min(hi,par.treatment_geos_range[1])
    return range(lo,hi+1), set(t), set(tf)
def lexcmp_gt(a,b,rel=1e-9):
    """a strictly greater than b with tolerance on last entry"""
    if tuple(a[:5])!=tuple(b[:5]): return tuple(a[:5])>tuple(b[:5])
    return a[5] > b[5]*(1+rel)
for seed in range(int(sys.argv[1]), int(sys.argv[2])):
    rng=np.random.default_rng(seed)
    df,el,kw=gen(rng)
    elrows = None if el is None else el.values.tolist()
    par0=P(**kw)
    sp = oracle_space(df, elrows, par0)
    if sp==('ValueError',) or not sp['adm']: continue
    try:
        data=tbrmmdata.TBRMMData(df,'response',GE(el) if el is not None else None)
        mm=tbrmatchedmarkets.TBRMatchedMarkets(data,P(**kw))
        r=mm.exhaustive_search()
        data=tbrmmdata.TBRMMData(df,'response',GE(el) if el is not None else None)
        mm=tbrmatchedmarkets.TBRMatchedMarkets(data,P(**kw))
        g=mm.greedy_search()
    except Exception as e:
        note(('exc',type(e).__name__),seed); continue
    sizes, tset, tfix = trt_size_range(sp, par0)
    F={}; Pset=set()
    br=par0.budget_range
    optim={}
    def opt_budget(T):
        if T not in optim: optim[T]=req_impact(series(sp,T),par0,par0.rho_max)/par0.iroas
        return optim[T]
    def outside(T):
        b=opt_budget(T); return b>br[1] or b<br[0]
    for T,C in enumerate_legal(sp):
        if not constraints_ok(sp,par0,T,C): continue
        if not share_ok(sp,par0,T,'all'): continue
        s,d = lib_score(sp,par0,T,C)
        if br is not None:
            b=d.required_impact/par0.iroas
            if not (br[0]<=b<=br[1]): continue
            s=s._replace(inv_required_impact=br[1]/d.required_impact)
        F[(T,C)]=s
        if br is not None:
            prunable = outside(T)
            if not prunable:
                for n in sizes:
                    if n>=len(T): break
                    for sub in itertools.combinations(sorted(T - tfix), n-len(tfix)) if n-len(tfix)>0 else ([()] if tfix and n==len(tfix) else []):
                        S=frozenset(tfix)|frozenset(sub)
                        if outside(S): prunable=True; break
                    if prunable: break
            if prunable: Pset.add((T,C))
    M = set(F)-Pset
    k=par0.n_designs
    R=[(frozenset(d.treatment_geos),frozenset(d.control_geos)) for d in r]
    Rs=[tuple(d.score.score) for d in r]
    if len(set(R))!=len(R): note(('C03 dup'),seed)
    notF=[x for x in R if x not in F]
    if notF: note(('C03 returned not feasible'),(seed,notF[:2],kw))
    for x,s in zip(R,Rs):
        if x in F:
            f=tuple(F[x])
            if f[:5]!=s[:5] or abs(f[5]-s[5])>1e-9*abs(f[5]): note(('C03/C04 score mismatch'),(seed,x,f,s))
    if len(R)<min(k,len(M)): note(('C03 too few'),(seed,len(R),len(M),len(F),k,kw))
    elif len(R)<k:
        if not M<=set(R): note(('C03 missing while not full'),seed)
    elif R:
        worst=Rs[-1]
        bad=[x for x in M-set(R) if lexcmp_gt(tuple(F[x]),worst)]
        if bad: note(('C03 better design omitted'),(seed,bad[:2],kw))
    # C13
    if br is None and par0.treatment_share_range is None:
        G=[(frozenset(d.treatment_geos),frozenset(d.control_geos)) for d in g]
        ng=[x for x in G if x not in F]
        if ng: note(('C13 greedy design not feasible'),(seed,ng[:2],kw, None if el is None else elrows))
        if not r and g: note(('C13 greedy nonempty while exhaustive empty'),seed)
        if r and g and lexcmp_gt(tuple(g[0].score.score), tuple(r[0].score.score)): note(('C13 greedy beats exhaustive'),seed)
        cnt[('C13 checked', len(g)>0)]+=1
    cnt[('ok',len(F)>0,len(Pset)>0, len(R)==k)]+=1
for k,v in sorted(cnt.items(), key=lambda x:-x[1]): print(v,k, ex.get(k))
