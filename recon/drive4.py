import sys, collections, warnings
import numpy as np
warnings.filterwarnings('ignore')
from refdiag import ref
from matched_markets.methodology import tbrmmdiagnostics, tbrmmdesignparameters, tbrmmscore
P=tbrmmdesignparameters.TBRMMDesignParameters; D=tbrmmdiagnostics.TBRMMDiagnostics
cnt=collections.Counter(); ex={}
def close(a,b,rel=1e-8): return abs(a-b)<=rel*max(abs(a),abs(b),1e-300)
for seed in range(int(sys.argv[1]),int(sys.argv[2])):
    rng=np.random.default_rng(seed)
    n=int(rng.integers(4,40)); nt=int(rng.integers(1,10))
    base=rng.normal(100,20,n)+rng.choice([0,1,5])*np.arange(n)
    x=base*rng.uniform(.5,2)+rng.normal(0,rng.choice([.1,1,10,50]),n)
    y=base*rng.uniform(.5,2)+rng.normal(0,rng.choice([.1,1,10,50]),n)
    if rng.random()<0.1: y[-nt:]+=rng.choice([20,100])
    par=P(n_test=nt,iroas=1.0,sig_level=float(rng.choice([0.6,0.8,0.9,0.95])),power_level=float(rng.choice([0.5,0.8,0.9])),flevel=float(rng.choice([0.9,0.95,0.99])),min_corr=float(rng.choice([0.8,0.9])))
    d=D(y,par); d.x=x
    r=ref(x,y,par)
    ok=True
    if not close(d.corr,r['corr']): ok=False; ex.setdefault('corr',(seed,d.corr,r['corr']))
    if not close(d.required_impact,r['required_impact'],1e-7): ok=False; ex.setdefault('ri',(seed,d.required_impact,r['required_impact']))
    if bool(d.corr_test)!=r['corr_test']: ok=False; ex.setdefault('ct',seed)
    if d.bbtest.test_ok!=r['bb']: ok=False; ex.setdefault('bb',(seed,r['bb_margin']))
    if bool(d.dwtest.test_ok)!=r['dw']: ok=False; ex.setdefault('dw',(seed,))
    aa=d.aatest.test_ok
    aa=None if aa is None else bool(aa)
    if aa!=r['aa']: ok=False; ex.setdefault('aa',(seed,aa,r['aa'],d.aatest,r.get('aa_prob')))
    cnt[(ok, r['corr_test'], r['bb'], r['dw'], r['aa'])]+=1
for k,v in sorted(cnt.items(),key=lambda x:-x[1]): print(v,k)
print(ex)
