#!/bin/bash
# setup_cmd: offline; ensures hypothesis (and jsonschema) next to the repository's packages; import self-test.
set -e
HERE="$(cd "$(dirname "${BASH_SOURCE[0]}")" && pwd)"
export PIP_NO_INDEX=1
/venv/bin/python -c "import hypothesis" 2>/dev/null || /venv/bin/pip install --no-index --find-links /opt/veriftools/wheels hypothesis
/venv/bin/python -c "import jsonschema" 2>/dev/null || /venv/bin/pip install --no-index --find-links /opt/veriftools/wheels jsonschema || true
if [ ! -d "$HERE/.deps/atheris" ]; then
  /venv/bin/pip install --no-index --find-links /opt/veriftools/wheels --target "$HERE/.deps" atheris >/dev/null 2>&1 || echo "atheris not installed (optional)"
fi
cd "$HERE"
PYTHONPATH=/repo:$HERE /venv/bin/python -W ignore -c "import hypothesis, numpy, pandas, scipy, statsmodels, matched_markets; import vmm.core; print('setup ok: hypothesis', hypothesis.__version__)"
