"""experiment_frame_spec: geo experiment frames (pre / test / cooldown, optional unassigned rows) for C06, C07, C18, C19.

Strategies produce JSON specs; materialise(spec) builds the DataFrame, the fit kwargs and the ground truth
(per-date group totals computed from the generated arrays, never through pandas).
All values are dyadic (multiples of 2^-10), so sums over geos are exact in any order.
"""
import numpy as np
from hypothesis import strategies as st

LAYOUTS = ['flat', 'geoindex', 'dateindex']
UN_LABELS = [-1, 0, 7, 'nan']


@st.composite
def experiment_frame_spec(draw, purpose):
  """purpose in {'c06', 'c07', 'c18', 'c19'}."""
  colab = draw(st.integers(0, 3)) == 0
  scen = draw(st.sampled_from(['fixed', 'variable'] * 3 + (['ctl_test_only', 'pre_only', 'trt_always_on', 'un_pre_only'] if purpose == 'c07' else ['trt_always_on']))) if purpose in ('c07', 'c18') else None
  min_pre = 8 if purpose == 'c19' else (10 if (purpose == 'c07' and scen == 'variable') else 3)
  n_pre = draw(st.one_of(st.integers(min_pre, min_pre + 3), st.integers(min_pre, 40), st.integers(min_pre, 40))
               if purpose == 'c19' else
               st.one_of(st.integers(min_pre, min_pre + 3), st.integers(min_pre, 40), st.integers(min_pre, 40), st.integers(min_pre, 40),
                         st.integers(85, 160)))
  n_test = draw(st.one_of(st.integers(1, 3), st.integers(1, 20)))
  n_cool = draw(st.integers(1 if purpose == 'c18' else 0, 10))
  want_un = purpose in ('c06', 'c18') and draw(st.booleans())
  n_before = draw(st.integers(0, 3)) if (want_un or colab) and draw(st.booleans()) else 0
  n_after = draw(st.integers(1, 4)) if (want_un or colab) else 0
  N = n_before + n_pre + n_test + n_cool + n_after
  n_c = draw(st.integers(1, 5))
  n_t = draw(st.integers(1, 5))
  n_u = draw(st.integers(1, 2)) if (colab or scen == 'un_pre_only' or (purpose == 'c06' and draw(st.booleans()))) else 0
  if purpose == 'c19':
    total = draw(st.integers(2, 12))
    n_c = draw(st.integers(1, total - 1))
    n_t = total - n_c
  geos = []
  for i in range(n_c + n_t + n_u):
    grp = 'c' if i < n_c else ('t' if i < n_c + n_t else 'u')
    geos.append({'g': grp, 'lv': draw(st.sampled_from([1, 2, 3, 5, 8])), 'am': draw(st.sampled_from([1, 4, 16, 64])),
                 'ul': draw(st.integers(0, 3)) if grp == 'u' else None,
                 'clv': draw(st.sampled_from([1, 2, 4]))})
  if purpose == 'c19' and len(geos) >= 5:
    for k in range(draw(st.integers(0, 2))):
      geos[draw(st.integers(0, len(geos) - 1))]['kind'] = draw(st.sampled_from(['ind', 'ind', 'const']))
  order = list(draw(st.permutations(list(range(len(geos))))))
  geos = [geos[i] for i in order]
  spec = {
      'purpose': purpose, 'colab': colab,
      'n_before': n_before, 'n_pre': n_pre, 'n_test': n_test, 'n_cool': n_cool, 'n_after': n_after,
      'after_label': draw(st.sampled_from([-1, 3])),
      'start': draw(st.integers(0, 3000)),
      'gaps': sorted(set(draw(st.lists(st.integers(1, max(1, N - 1)), max_size=3)))) if (colab or draw(st.integers(0, 4)) == 0) else [],
      'geos': geos,
      'factor': draw(st.lists(st.integers(-8, 8), min_size=N, max_size=N)),
      'noise': [draw(st.lists(st.integers(-128, 128), min_size=N, max_size=N)) for _ in geos],
      'lift': draw(st.sampled_from([0, 8, 40, 200])), 'lift_cool': draw(st.sampled_from([0, 4, 20])),
      'layout': draw(st.sampled_from(LAYOUTS)) if purpose != 'c19' else 'flat',
      'perm_seed': draw(st.integers(0, 10 ** 6)),
      'str_ids': draw(st.booleans()),
      'dup_index': draw(st.sampled_from([0, 0, 0, 2, 5])),
      'int_values': draw(st.integers(0, 4)) == 0,
      'int_scale': draw(st.sampled_from([1, 1, 10 ** 6])),          # whole units, or e.g. revenue in micros (int64 totals > 2^31)
      'nan_extra_col': draw(st.integers(0, 3)) == 0,
      # the metrics recorded in another unit (millions ... micro-units): exact powers of two
      'unit_k': draw(st.sampled_from([0, 0, 0, 0, 0, -24, -12, 20])),                # a secondary metric column with missing values
      # excluded days (period label -1) inside the pre-test / test / cooldown span, e.g. a holiday taken out of the analysis
      'holes': sorted(set(draw(st.lists(st.integers(0, N - 1), max_size=3)))) if (purpose in ('c06', 'c07', 'c18') and draw(st.integers(0, 3)) == 0) else [],
      'ctl_cool_cost': draw(st.sampled_from([0, 0, 3, 15])),
      'missing_row': draw(st.integers(0, 200)) if (purpose == 'c19' and draw(st.integers(0, 3)) == 0) else None,
  }
  if purpose == 'c19':
    # excluded geos with a longer history than the assigned ones: days on which neither group has a row
    spec['un_hist'] = draw(st.sampled_from([0, 0, 3, 7]))
    # the date column as time stamps (default), ISO strings, datetime.date objects or integer day numbers
    spec['date_kind'] = draw(st.sampled_from([None, None, None, 'iso', 'date', 'int']))
    spec['outlier'] = ({'pos': draw(st.integers(0, N - 1)), 'amount': draw(st.sampled_from([50, 200, 500])),
                        'geo': draw(st.integers(0, len(geos) - 1))} if draw(st.booleans()) else None)
  # names / labels
  names = {}
  labels = {}
  if colab:
    names['key_group'] = 'assignment'
    labels.update({'group_control': 2, 'group_treatment': 1})
  elif draw(st.integers(0, 2)) == 0:
    labels.update(draw(st.sampled_from([{'group_control': 2, 'group_treatment': 1}, {'group_control': 10, 'group_treatment': 20},
                                        {'group_control': 0, 'group_treatment': 5}])))
    if draw(st.booleans()):
      names['key_group'] = draw(st.sampled_from(['assignment', 'grp', 'arm']))
  if purpose in ('c06', 'c19') and not colab and draw(st.integers(0, 2)) == 0:
    if draw(st.booleans()):
      names['key_response'] = draw(st.sampled_from(['sales', 'y', 'revenue']))
    if draw(st.booleans()):
      names['key_period'] = draw(st.sampled_from(['phase', 'per']))
    if draw(st.booleans()):
      names['key_date'] = draw(st.sampled_from(['day', 'dt']))
    if purpose == 'c19' and draw(st.booleans()):
      names['key_geo'] = draw(st.sampled_from(['region', 'dma']))
    if draw(st.booleans()):
      labels.update(draw(st.sampled_from([{'period_pre': 5, 'period_test': 6, 'period_cooldown': 9}, {'period_pre': 7, 'period_test': 0, 'period_cooldown': 1}])))
  spec['names'] = names
  spec['labels'] = labels
  # cost
  if purpose in ('c07', 'c18'):
    spec['cost'] = {'scenario': scen, 'spend': draw(st.sampled_from([1, 4, 25, 100, 100, 2 ** 40])),
                    'cool_spend': draw(st.sampled_from([0, 0, 2])),
                    'cnoise': [draw(st.lists(st.integers(-16, 16), min_size=N, max_size=N)) for _ in geos],
                    'cost_lift': draw(st.sampled_from([64, 256, 1024]))}
  return spec


def materialise(spec, drop_unassigned=False, permute=True, split_first_treatment=False):
  """-> (frame, fit_kwargs, truth)."""
  import pandas as pd
  nb, npre, nt, nc, na = spec['n_before'], spec['n_pre'], spec['n_test'], spec['n_cool'], spec['n_after']
  N = nb + npre + nt + nc + na
  sem = ['un_before'] * nb + ['pre'] * npre + ['test'] * nt + ['cool'] * nc + ['un_after'] * na
  n_pre_left, n_test_left = npre, nt
  for h in spec.get('holes', []):
    # keep at least 3 pre-test days (C19: 8) and one test day
    if sem[h] == 'pre' and n_pre_left > (8 if spec['purpose'] == 'c19' else (10 if spec.get('cost', {}).get('scenario') == 'variable' and spec['purpose'] == 'c07' else 3)):
      sem[h] = 'un_hole'
      n_pre_left -= 1
    elif sem[h] == 'test' and n_test_left > 1:
      sem[h] = 'un_hole'
      n_test_left -= 1
    elif sem[h] == 'cool' and sum(1 for x in sem if x == 'cool') > 1:
      sem[h] = 'un_hole'
  lab = dict({'group_control': 1, 'group_treatment': 2, 'period_pre': 0, 'period_test': 1, 'period_cooldown': 2}, **spec['labels'])
  after_label = spec['after_label']
  if after_label in (lab['period_pre'], lab['period_test'], lab['period_cooldown']):
    after_label = -1
  plabel = {'un_hole': -1, 'un_before': -1, 'pre': lab['period_pre'], 'test': lab['period_test'], 'cool': lab['period_cooldown'], 'un_after': after_label}
  # date axis with gaps
  offs = []
  cur = spec['start']
  gaps = set(spec['gaps'])
  for i in range(N):
    if i in gaps:
      cur += 2
    offs.append(cur)
    cur += 1
  dates = [pd.Timestamp('2015-01-01') + pd.Timedelta(days=int(o)) for o in offs]
  f = 100.0 + np.cumsum(np.asarray(spec['factor'], float))
  d_idx = np.arange(N)
  names = dict({'key_response': 'response', 'key_group': 'group', 'key_period': 'period', 'key_date': 'date',
                'key_geo': 'geo', 'key_cost': 'cost'}, **spec['names'])
  has_cost = 'cost' in spec
  cols = {names['key_date']: [], names['key_geo']: [], names['key_group']: [], names['key_period']: [], names['key_response']: []}
  if has_cost:
    cols[names['key_cost']] = []
  X = np.zeros(N)
  Y = np.zeros(N)
  CX = np.zeros(N)
  CY = np.zeros(N)
  geo_rows = []
  is_test = np.array([s == 'test' for s in sem])
  is_cool = np.array([s == 'cool' for s in sem])
  keep = np.array([not (drop_unassigned and s.startswith('un')) for s in sem])
  gid = 0
  n_split = 0
  for gi, g in enumerate(spec['geos']):
    if drop_unassigned and g['g'] == 'u':
      continue
    e = np.asarray(spec['noise'][gi], float)
    v = g['lv'] * f + g['am'] * e / 256.0 + g['lv'] * ((7 * gi + 3 * d_idx) % 11) / 8.0
    if g.get('kind') == 'ind':
      v = 50.0 * g['lv'] + e / 2.0 + ((5 * gi + 7 * d_idx) % 13)
    elif g.get('kind') == 'const':
      v = np.full(N, 10.0 * g['lv'])
    if g['g'] == 't':
      v = v + spec['lift'] * is_test + spec['lift_cool'] * is_cool
    if spec.get('outlier') and spec['outlier']['geo'] == gi:
      v = v + spec['outlier']['amount'] * (d_idx == spec['outlier']['pos'])
    v = np.maximum(0, np.round(v * 1024)) / 1024
    c = None
    if has_cost:
      cs = spec['cost']
      if cs['scenario'] == 'trt_always_on':
        # treatment geos spend all the time (more in the test), control geos never: the control cost series is constant 0
        c = np.zeros(N)
        if g['g'] == 't':
          ce = np.asarray(cs['cnoise'][gi], float)
          c = g['clv'] * 8.0 + ce / 16.0 + cs['cost_lift'] * is_test
          c = np.maximum(c, 1.0 / 64)
      elif cs['scenario'] == 'un_pre_only':
        # only an unassigned (excluded) geo spends before the test; treatment spends in the test
        c = np.zeros(N)
        if g['g'] == 't':
          c = g['clv'] * cs['spend'] * is_test * 1.0
        elif g['g'] == 'u':
          c = (g['clv'] / 2.0) * np.array([s_ == 'pre' for s_ in sem]) * 1.0
      elif cs['scenario'] in ('fixed', 'ctl_test_only', 'pre_only'):
        c = np.zeros(N)
        if g['g'] == 't':
          c = g['clv'] * cs['spend'] * is_test + cs['cool_spend'] * is_cool * 1.0
          c = c * (1 + ((d_idx + gi) % 3) / 4.0)
        if cs['scenario'] == 'fixed' and g['g'] == 'c' and spec.get('ctl_cool_cost'):
          c = spec['ctl_cool_cost'] * is_cool * 1.0       # e.g. the campaign is rolled out everywhere after the test
        if cs['scenario'] == 'ctl_test_only' and g['g'] == 'c':
          c = (g['clv'] / 4.0) * is_test
        if cs['scenario'] == 'pre_only' and g['g'] in ('c', 't') and gi % 2 == 0:
          c = c + (g['clv'] / 8.0) * np.array([s_ == 'pre' for s_ in sem]) * (d_idx % 2)
      else:
        ce = np.asarray(cs['cnoise'][gi], float)
        c = g['clv'] * (20.0 + f / 16.0) + ce / 16.0
        c = np.maximum(c, 1.0 / 64)
        if g['g'] == 't':
          c = c + cs['cost_lift'] * is_test
      c = np.round(c * 1024) / 1024
    if spec.get('int_values'):
      v = np.floor(v) * spec.get('int_scale', 1)
      if c is not None and spec['cost']['scenario'] in ('fixed', 'variable'):
        c = np.floor(c)
    uk = spec.get('unit_k', 0)
    if uk and not spec.get('int_values'):
      v = v * (2.0 ** uk)
      if c is not None:
        c = c * (2.0 ** uk)
    if g['g'] == 'c':
      glabel = lab['group_control']
      X += v
      if c is not None:
        CX += c
    elif g['g'] == 't':
      glabel = lab['group_treatment']
      Y += v
      if c is not None:
        CY += c
    else:
      glabel = UN_LABELS[g['ul']]
      if glabel in (lab['group_control'], lab['group_treatment']):
        glabel = -1
      if glabel == 'nan':
        # (rows without a group label are dropped by the aggregation; in the un_pre_only scenario the spending geo
        # must be a labelled, excluded geo)
        glabel = -1 if (has_cost and spec['cost']['scenario'] == 'un_pre_only') else float('nan')
    parts = [(v, c)]
    if split_first_treatment and g['g'] == 't' and n_split == 0:
      n_split = 1
      v1 = np.floor(v / 2.0) if spec.get('int_values') else np.floor(v * 512) / 1024
      parts = [(v1, None if c is None else (np.floor(c / 2.0) if spec.get('int_values') else np.floor(c * 512) / 1024))]
      parts.append((v - v1, None if c is None else c - parts[0][1]))
    for (vv, cc) in parts:
      gid += 1
      name = ('g%d' % gid) if spec['str_ids'] else gid
      for d in range(N):
        if not keep[d]:
          continue
        cols[names['key_date']].append(dates[d])
        cols[names['key_geo']].append(name)
        cols[names['key_group']].append(glabel)
        cols[names['key_period']].append(plabel[sem[d]])
        cols[names['key_response']].append(float(vv[d]))
        if has_cost:
          cols[names['key_cost']].append(float(cc[d]))
      geo_rows.append((name, g['g']))
      if spec.get('un_hist') and g['g'] == 'u' and not drop_unassigned:
        for k in range(1, spec['un_hist'] + 1):
          cols[names['key_date']].append(dates[0] - pd.Timedelta(days=k))
          cols[names['key_geo']].append(name)
          cols[names['key_group']].append(glabel)
          cols[names['key_period']].append(plabel['pre'])
          cols[names['key_response']].append(float(vv[0]) + k)
          if has_cost:
            cols[names['key_cost']].append(0.0)
  df = pd.DataFrame(cols)
  if spec.get('int_values'):
    # integer-typed measurements (whole units; the arrays were floored before the totals were accumulated)
    for k in (names['key_response'],) + ((names['key_cost'],) if (has_cost and spec['cost']['scenario'] in ('fixed', 'variable')) else ()):
      df[k] = df[k].astype('int64')
  dk = spec.get('date_kind')
  if dk:
    col = df[names['key_date']]
    conv = {'iso': lambda t: t.strftime('%Y-%m-%d'), 'date': lambda t: t.date(), 'int': lambda t: int(t.toordinal())}[dk]
    df[names['key_date']] = pd.Series([conv(t) for t in col], index=df.index, dtype=(None if dk == 'int' else object))
  if spec.get('nan_extra_col'):
    extra = np.arange(len(df), dtype=float)
    extra[::3] = np.nan
    df['clicks'] = extra
  if spec.get('missing_row') is not None and len(df) > 4:
    df = df.drop(index=df.index[spec['missing_row'] % len(df)]).reset_index(drop=True)     # one geo misses one day
  if permute and spec['perm_seed']:
    rs = np.random.RandomState(spec['perm_seed'] % (2 ** 31))
    df = df.iloc[rs.permutation(len(df))].reset_index(drop=True)
  if spec.get('dup_index') and spec['layout'] == 'flat':
    # non-unique index labels (e.g. chunks concatenated without ignore_index)
    m = max(2, len(df) // spec['dup_index'])
    df.index = [i % m for i in range(len(df))]
  if spec['layout'] == 'geoindex':
    df = df.set_index(names['key_geo'])
  elif spec['layout'] == 'dateindex':
    df = df.set_index(names['key_date'])
  kwargs = dict(spec['names'])
  kwargs.update(spec['labels'])
  truth = {'dates': dates, 'sem': sem, 'X': X, 'Y': Y, 'CX': CX, 'CY': CY, 'names': names, 'labels': lab,
           'geo_rows': geo_rows, 'N': N}
  return df, kwargs, truth


def masks(truth, use_cooldown=True):
  sem = np.array(truth['sem'])
  pre = sem == 'pre'
  an = (sem == 'test') | ((sem == 'cool') if use_cooldown else np.zeros(len(sem), bool))
  return pre, an


def scribble(df, names):
  """The caller goes on working with the frame it passed to fit(): metric columns converted to another unit on the same
  DataFrame object, two rows dropped in place. A fitted model must not be affected (it analysed the frame it was given)."""
  for k in ('key_response', 'key_cost'):
    c = names.get(k)
    if c in df.columns:
      df[c] = df[c] * 1000
  if len(df) > 4:
    df.drop(index=df.index[:2], inplace=True)
