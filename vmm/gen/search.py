"""panel_spec x eligibility_spec x params_spec for the matched-markets search properties.

Strategies produce JSON specs only; vmm.ref.searchlib.materialise turns a spec into the long-format frame,
the eligibility table and the TBRMMDesignParameters kwargs (data-aware constraint values are resolved there).
All responses are dyadic (multiples of 2^-10 below 2^20): sums over geos are exact in any order and
multiplication by 2^k is exact.
"""
from hypothesis import strategies as st

ROWS7 = [(1, 1, 1), (1, 0, 0), (0, 1, 0), (0, 0, 1), (1, 1, 0), (1, 0, 1), (0, 1, 1)]   # ctx c_fixed t_fixed x_fixed ct cx tx
ID_STYLES = ['seq', 'digits', 'names']
DIGIT_IDS = ['10', '2', '33', '4', '105', '6', '77', '8', '9', '1', '21', '3']
NAME_IDS = ['b', 'a', 'NY', 'la', 'geo z', 'C', 'x1', 'k', 'Z', 'm', 'q', 'd']
SIZE_RANGES = [(1, 1), (1, 2), (2, 2), (2, 3), (1, 4), (3, 6), (5, 9)]
LEVELS = [1, 2, 4, 8, 12, 20, 32]
AMPS = [0, 2, 8, 32, 128]


@st.composite
def panel_spec(draw, max_geos=6, min_geos=1, max_dates=30, flat=False):
  n_test = draw(st.one_of(st.integers(1, 4), st.integers(1, 10)))
  n_dates = draw(st.integers(n_test + 3, max(n_test + 3, max_dates)))
  n_geos = draw(st.integers(min_geos, max_geos))
  style = draw(st.sampled_from(ID_STYLES))
  if style == 'seq':
    ids = [str(i + 1) for i in range(n_geos)]
  else:
    pool = DIGIT_IDS if style == 'digits' else NAME_IDS
    ids = list(draw(st.permutations(pool)))[:n_geos]
  near = []
  if n_geos >= 3 and draw(st.integers(0, 5)) == 0:
    i = draw(st.integers(0, n_geos - 1))
    j = draw(st.integers(0, n_geos - 2))
    near = [[i, j if j < i else j + 1]]
  return {
      'near_copy': near,
      'n_test': n_test, 'n_dates': n_dates, 'freq': draw(st.sampled_from(['D', 'D', 'W'])), 'start': draw(st.integers(0, 2000)),
      'ids': ids, 'id_int': style != 'names' and draw(st.booleans()),
      'level': draw(st.lists(st.sampled_from(LEVELS), min_size=n_geos, max_size=n_geos)),
      'amp': draw(st.lists(st.sampled_from(AMPS), min_size=n_geos, max_size=n_geos)),
      'factor': draw(st.lists(st.integers(-8, 8), min_size=n_dates, max_size=n_dates)),
      'noise': [draw(st.lists(st.integers(-512, 512), min_size=n_dates, max_size=n_dates)) for _ in range(n_geos)],
      'resp_col': draw(st.sampled_from(['response', 'response', 'sales', 'y'])),
      'extra_col': draw(st.booleans()),
      'perm_seed': draw(st.integers(0, 10 ** 6)),
      'missing': [],
      'resp_int': draw(st.integers(0, 4)) == 0,
      # anti-phase geos (loading -1 on the common factor): negative correlations, group sums with a smaller spread than their parts
      'sign': [draw(st.sampled_from([1, 1, 1, 1, 1, -1])) for _ in range(n_geos)],
      # geos that were larger in the first half of the history (shares over all dates != shares over the recent window)
      'early': [draw(st.sampled_from([1, 1, 1, 1, 2, 4, 8])) for _ in range(n_geos)],
      # geos whose response is exactly constant over the last `len` dates (C01 only: legality does not depend on scores)
      'flat': ([[draw(st.integers(0, n_geos - 1)), draw(st.sampled_from([n_dates, n_test + 3, max(n_test + 3, n_dates // 2)]))]
                for _ in range(draw(st.integers(1, 2)))] if (flat and draw(st.integers(0, 2)) == 0) else []),
      'date_str': draw(st.integers(0, 5)) == 0,
      'row_labels': draw(st.sampled_from([None, None, None, 'kept', 'gaps', 'repeated'])),
      # a large stable baseline under every geo (levels of ~1e7 moving by tens: numerically demanding, still exact)
      'offset': 0 if near else draw(st.sampled_from([0, 0, 0, 0, 2 ** 24, 2 ** 26])),
      # readings stamped at noon instead of midnight
      'hour': draw(st.sampled_from([0, 0, 0, 12])),
      # date column as a pandas categorical that also declares two later dates without rows (a frame cut at a cutoff date)
      'date_cat': draw(st.integers(0, 7)) == 0,
      # response column in a pandas nullable dtype
      'resp_dtype': draw(st.sampled_from([None, None, None, None, None, None, 'Float64', 'Int64'])),
      # the whole panel in another unit (per-mille shares ... micro-currency): exact powers of two
      'unit_k': draw(st.sampled_from([0, 0, 0, 0, 0, 0, -24, -12, 20, 30])),
      # geo column dtype: Python ints / ints and strings in an object column, pandas string dtype
      'geo_dtype': draw(st.sampled_from([None, None, None, None, 'object', 'mixed', 'string'])),
      # rows sorted like a database export (ascending geo, dates newest first / in another fixed order; newest date first)
      'row_order': draw(st.sampled_from([None, None, None, None, None, 'geo-asc-date-desc', 'geo-asc-date-perm', 'date-desc-major'])),
  }


@st.composite
def eligibility_spec(draw, ids, style=None):
  """None (all geos free) or a table over a subset / superset of the data's geos."""
  style = style or draw(st.sampled_from(['none', 'none', 'mixed', 'mixed', 'mixed', 'mixed', 'fixed-heavy', 'all-control',
                                         'all-treatment', 'all-excluded', 'free']))
  if style == 'none':
    return None
  weights = {
      'mixed': [0, 0, 0, 1, 2, 3, 4, 5, 6, 0, 4, 5],
      'fixed-heavy': [1, 2, 1, 2, 4, 3, 0],
      'all-control': [1, 1, 5, 5, 1],
      'all-treatment': [2, 2, 6, 6, 2],
      'all-excluded': [3],
      'free': [0],
  }[style]
  rows = []
  drop = draw(st.integers(0, 5)) == 0 and len(ids) > 1
  for i, g in enumerate(ids):
    if drop and i == len(ids) - 1:
      continue                      # a geo in the data but not in the table
    rows.append([g] + list(ROWS7[draw(st.sampled_from(weights))]))
  extra = draw(st.integers(0, 6))
  if extra == 0:
    rows.append(['extra1'] + list(ROWS7[draw(st.sampled_from([0, 3, 5, 6]))]))     # excludable geo absent from the data
  elif extra == 1 and draw(st.integers(0, 3)) == 0:
    rows.append(['extra2'] + list(ROWS7[draw(st.sampled_from([1, 2, 4]))]))        # non-excludable geo absent -> ValueError
  order = list(draw(st.permutations(list(range(len(rows))))))
  rows = [rows[i] for i in order]
  return {'rows': rows, 'as_index': draw(st.booleans()), 'style': style,
          'col_order': list(draw(st.permutations(['control', 'treatment', 'exclude']))) if draw(st.booleans()) else None,
          'row_labels': draw(st.sampled_from([None, None, 'reversed', 'gaps']))}


@st.composite
def params_spec(draw, n_test, n_dates, n_geos, constraint_p=0.5, allow_budget=True, allow_share=True, degenerate=False,
                tight_sizes=False):
  def maybe():
    return draw(st.floats(0, 1)) < constraint_p
  p = {'iroas': draw(st.sampled_from([1.0, 1.0, 0.5, 3]))}
  p['n_designs'] = draw(st.sampled_from([1, 1, 2, 3, 5, 10, 50, 10000]))
  ranges = SIZE_RANGES if degenerate else [r for r in SIZE_RANGES if r[0] <= max(1, n_geos - 2)]
  if tight_sizes:
    ranges = [(1, 1), (1, 1), (2, 2), (1, 2), (3, 3), (4, 5), (5, 9)]      # often in conflict with fixed geos / eligible counts
  p['treatment_geos_range'] = list(draw(st.sampled_from(ranges))) if maybe() else None
  p['control_geos_range'] = list(draw(st.sampled_from(ranges))) if maybe() else None
  p['geo_ratio_tolerance'] = draw(st.sampled_from([0.25, 0.5, 1.0, 1.0, 2.0, 2.0, 3.0, 'inf', 0.1, 2.0 / 3, 1.0 / 3, 0.2, 0.6])) if maybe() else None
  p['volume_ratio_tolerance'] = draw(st.sampled_from([0.25, 1.0, 4.0, 4.0, 9.0, 9.0, 'inf', 0.05])) if maybe() else None
  p['n_geos_max'] = draw(st.sampled_from([2, 3, 4, 5])) if (maybe() and draw(st.booleans())) else None
  p['n_pretest_max'] = draw(st.integers(n_test + 3, max(n_test + 3, n_dates))) if draw(st.booleans()) else None
  p['share_q'] = None
  p['budget_q'] = None
  if allow_share and maybe():
    p['share_q'] = draw(st.sampled_from(['low', 'high'])) if (degenerate and draw(st.booleans())) else sorted(
        [draw(st.floats(0, 1)), draw(st.floats(0, 1))])
  # bounds placed a few 1e-6 (relative) inside an attainable value instead of midway between two of them
  p['edge'] = draw(st.sampled_from([None, None, 'near']))
  if allow_budget and maybe():
    p['budget_q'] = draw(st.sampled_from(['low', 'high'])) if ((degenerate or draw(st.integers(0, 9)) == 0) and draw(st.booleans())) else sorted(
        [draw(st.floats(0, 1)), draw(st.floats(0, 1))])
  if draw(st.integers(0, 2)) == 0:
    p['sig_level'] = draw(st.sampled_from([0.9, 0.8, 0.95, 0.6]))
    p['power_level'] = draw(st.sampled_from([0.8, 0.5, 0.9]))
    p['flevel'] = draw(st.sampled_from([0.9, 0.95, 0.99]))
    p['min_corr'] = draw(st.sampled_from([0.8, 0.9, 0.95]))
    p['rho_max'] = draw(st.sampled_from([0.995, 0.9, 0.95]))
  if degenerate:
    if draw(st.integers(0, 4)) == 0:
      p['iroas'] = 0.0
    if draw(st.integers(0, 3)) == 0:
      p['geo_ratio_tolerance'] = 0.001
    if draw(st.integers(0, 3)) == 0:
      p['volume_ratio_tolerance'] = 0.001
    if draw(st.integers(0, 3)) == 0:
      p['n_pretest_max'] = n_test + 3
  return p


@st.composite
def search_spec(draw, max_geos=6, min_geos=1, constraint_p=0.5, allow_budget=True, allow_share=True, degenerate=False,
                elig_style=None, max_dates=30, flat=False, tight_sizes=False):
  panel = draw(panel_spec(max_geos=max_geos, min_geos=min_geos, max_dates=max_dates, flat=flat))
  elig = draw(eligibility_spec(panel['ids'], elig_style))
  params = draw(params_spec(panel['n_test'], panel['n_dates'], len(panel['ids']), constraint_p, allow_budget, allow_share, degenerate,
                            tight_sizes))
  if len(panel['ids']) >= 2 and panel['n_dates'] >= 8 and draw(st.integers(0, 5)) == 0:
    # a geo that entered the panel late: no rows (or rows with a missing value) for the first third of the dates
    g = draw(st.integers(0, len(panel['ids']) - 1))
    panel['missing'] = [[g, d] for d in range(panel['n_dates'] // 3)]
    panel['missing_as_nan'] = draw(st.booleans())
  history = draw(st.sampled_from([None, None, 'shared-data', 'reused-data', 'other-search-first', 'params-mutated', 'shared-eligibility']))
  if history == 'shared-data' and params['n_geos_max'] is None and len(panel['ids']) >= 3 and draw(st.booleans()):
    # the measured searcher is capped, the other one on the same data object is not (its geo list is a superset)
    params['n_geos_max'] = len(panel['ids']) - 1
  return {'panel': panel, 'elig': elig, 'params': params, 'history': history}


BOUNDARY_SPLITS = [(3, 5, 2.0 / 3), (3, 4, 1.0 / 3), (2, 3, 0.5), (2, 5, 1.5), (1, 2, 1.0), (1, 3, 2.0), (2, 4, 1.0), (4, 5, 0.25), (5, 6, 0.2)]


@st.composite
def ratio_boundary_spec(draw, max_geos=8, allow_budget=False, allow_share=False):
  """Group sizes sitting exactly on the geo-ratio boundary: eligibility pins (most of) s geos to one group and l to the
  other with l / s == 1 + tolerance, the tolerance being the float nearest to (l - s) / s (not always representable)."""
  s_, l_, tol = draw(st.sampled_from([x for x in BOUNDARY_SPLITS if x[0] + x[1] <= max_geos]))
  n = s_ + l_ + draw(st.integers(0, min(2, max_geos - s_ - l_)))
  panel = draw(panel_spec(max_geos=n, min_geos=n, max_dates=24))
  small_is_treatment = draw(st.booleans())
  kinds = [(0, 1, 0) if small_is_treatment else (1, 0, 0)] * s_ + [(1, 0, 0) if small_is_treatment else (0, 1, 0)] * l_
  kinds += [draw(st.sampled_from([(1, 0, 1), (0, 1, 1), (1, 1, 1), (0, 0, 1)])) for _ in range(n - s_ - l_)]
  for _ in range(draw(st.integers(0, 2))):
    i = draw(st.integers(0, s_ + l_ - 1))
    kinds[i] = draw(st.sampled_from([(1, 1, 0), (1, 1, 1), (kinds[i][0], kinds[i][1], 1)]))     # loosen one of the pinned geos
  order = list(draw(st.permutations(list(range(n)))))
  rows = [[panel['ids'][i]] + list(kinds[j]) for i, j in enumerate(order)]
  params = draw(params_spec(panel['n_test'], panel['n_dates'], n, 0.15, allow_budget, allow_share))
  params['geo_ratio_tolerance'] = tol
  params['n_geos_max'] = None
  return {'panel': panel, 'elig': {'rows': rows, 'as_index': draw(st.booleans()), 'style': 'ratio-boundary', 'col_order': None, 'row_labels': None},
          'params': params, 'history': None}


def shared_capped(spec):
  """Map: a capped searcher (n_geos_max) whose data object is also used by an uncapped one between its searches."""
  spec['history'] = 'shared-data'
  if spec['params'].get('n_geos_max') is None:
    spec['params']['n_geos_max'] = max(2, len(spec['panel']['ids']) - 1)
  return spec
