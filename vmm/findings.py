"""Matchers for the 'finding' entries of known_findings.json: matcher(kind, detail, spec) -> bool."""


def c18_scale_decreases(kind, detail, spec):
  """F12: the effect-series report fails because the posterior scale is not monotone in t (first-differenced quantiles)."""
  if kind != 'C18:crash:ValueError@__init__':
    return False
  if not isinstance(detail, dict) or detail.get('scale_decreases') is not True:
    return False
  msg = detail.get('exc', '')
  return ('lower bound is not smaller than point estimate' in msg) or ('upper bound is not larger than point estimate' in msg)
