"""Matchers for the 'finding' entries of known_findings.json: matcher(kind, detail, spec) -> bool."""
