"""check <Cnn> [--tier quick|thorough] [--replay FILE]   env: VERIF_SEED, VERIF_TIER, VERIF_REPO."""
import argparse
import os
import sys
import warnings


def main(argv=None):
  ap = argparse.ArgumentParser(prog='check')
  ap.add_argument('prop')
  ap.add_argument('--tier', default=None, choices=['quick', 'thorough'])
  ap.add_argument('--replay', default=None)
  a = ap.parse_args(argv)
  tier = a.tier or os.environ.get('VERIF_TIER') or 'quick'
  if tier not in ('quick', 'thorough'):
    tier = 'quick'
  try:
    seed = int(os.environ.get('VERIF_SEED', '1'))
  except ValueError:
    seed = 1
  seed = abs(seed) % (2 ** 31)
  warnings.simplefilter('ignore')
  repo = os.path.realpath(os.environ.get('VERIF_REPO', '/repo'))
  try:
    import matched_markets
    where = os.path.realpath(matched_markets.__file__)
    if not where.startswith(repo + os.sep):
      print('HARNESS-ERROR matched_markets imported from %s, not from %s' % (where, repo))
      return 2
    from vmm import core
    return core.run_check(a.prop.upper(), tier, seed, replay=a.replay)
  except Exception as e:  # pylint: disable=broad-except
    import traceback
    print('HARNESS-ERROR %s: %s\n%s' % (type(e).__name__, e, traceback.format_exc()))
    return 2


if __name__ == '__main__':
  sys.exit(main())
