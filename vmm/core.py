"""Runner: shards, collect-then-shrink, evidence, VIOLATION / KNOWN-FINDING lines.

A property module (vmm.props.cNN) provides

  ID, RULE, BUDGET = {'quick': n, 'thorough': n}, FLOOR = {'quick': n, ...}
  strategy(tier)            -> Hypothesis strategy of JSON-serialisable specs   (given-style)
  machine(tier, sink)       -> RuleBasedStateMachine subclass                    (history-style)
  run(spec)                 -> outcome dict {'viol': [(kind, detail)], 'nt': bool,
                                             'cls': [str], 'dc': int}
  enumerate(tier)           -> optional iterable of specs (finite sub-domain), with EXHAUSTIVE text
  SHRINK = {'quick': bool, 'thorough': bool}   (default True/True)

run(spec) is pure: the replay path calls it with no Hypothesis in the loop.
"""
import collections
import hashlib
import importlib
import json
import multiprocessing as mp
import os
import sys
import time
import traceback

HERE = os.path.dirname(os.path.dirname(os.path.abspath(__file__)))
NSHARDS = int(os.environ.get('VERIF_SHARDS', '16'))


class HarnessError(Exception):
  pass


class PropertyFailure(AssertionError):
  pass


class ShrinkBudgetExhausted(KeyboardInterrupt):
  """Raised from inside a failing example once shrinking has used its wall budget; Hypothesis treats a
  KeyboardInterrupt as 'stop now', and the last failing spec seen (the smallest so far) is reported.
  Only ever raised for an example that already fails, so it cannot turn a pass into a failure or vice versa."""


class ExampleTimeout(Exception):
  """One generated example used more CPU time than any terminating case needs (see EXAMPLE_CPU_S)."""


EXAMPLE_CPU_S = {'quick': 30.0, 'thorough': 150.0}


def _on_alarm(signum, frame):
  raise ExampleTimeout('example exceeded its CPU budget')


def arm():
  """Per-example CPU-time watchdog (process CPU time, so machine load cannot trigger it): a hang inside the code
  under test becomes an exception - and thereby a reported violation - instead of a check that never returns.
  The timer repeats, so that a second hang in the same example is interrupted as well."""
  import signal
  t = EXAMPLE_CPU_S.get(os.environ.get('VERIF_TIER_EFFECTIVE', 'thorough'), 150.0)
  signal.signal(signal.SIGVTALRM, _on_alarm)
  signal.setitimer(signal.ITIMER_VIRTUAL, t, t)


def disarm():
  import signal
  signal.setitimer(signal.ITIMER_VIRTUAL, 0, 0)


SHRINK_BUDGET_S = {'quick': float(os.environ.get('VERIF_SHRINK_S', '25')), 'thorough': 240.0}


def spec_hash(spec):
  return hashlib.sha1(json.dumps(spec, sort_keys=True, default=str).encode()).hexdigest()[:16]


def crash_kind(prefix, exc):
  """(exception type, innermost frame inside matched_markets)."""
  tb = traceback.extract_tb(exc.__traceback__)
  frames = [f for f in tb if 'matched_markets' in f.filename.replace('\\', '/')]
  where = frames[-1].name if frames else 'outside'
  return '%s:crash:%s@%s' % (prefix, type(exc).__name__, where)


def abbreviate(obj, maxlen=12, depth=0):
  """Shorten a spec for the evidence samples."""
  if isinstance(obj, dict):
    return {k: abbreviate(v, maxlen, depth + 1) for k, v in obj.items()}
  if isinstance(obj, (list, tuple)):
    if len(obj) > maxlen:
      return [abbreviate(v, maxlen, depth + 1) for v in obj[:maxlen]] + ['...(%d)' % len(obj)]
    return [abbreviate(v, maxlen, depth + 1) for v in obj]
  if isinstance(obj, float):
    if obj != obj:
      return 'nan'
    if obj in (float('inf'), float('-inf')):
      return str(obj)
  return obj


def jsonable(o):
  import numpy as np
  if isinstance(o, dict):
    return {str(k): jsonable(v) for k, v in o.items()}
  if isinstance(o, (list, tuple, set, frozenset)):
    seq = sorted(o, key=str) if isinstance(o, (set, frozenset)) else o
    return [jsonable(v) for v in seq]
  if isinstance(o, (np.integer,)):
    return int(o)
  if isinstance(o, (np.floating,)):
    return jsonable(float(o))
  if isinstance(o, np.ndarray):
    return jsonable(o.tolist())
  if isinstance(o, float):
    if o != o:
      return 'nan'
    if o == float('inf'):
      return 'inf'
    if o == float('-inf'):
      return '-inf'
    return o
  if isinstance(o, (int, str, bool)) or o is None:
    return o
  return repr(o)


# ---------------------------------------------------------------------------
# known findings

def load_findings():
  path = os.path.join(HERE, 'known_findings.json')
  if not os.path.exists(path):
    return []
  with open(path) as f:
    return json.load(f)


def finding_matchers(prop_id):
  """[(entry, predicate(kind, detail, spec) -> bool)] for status == 'finding'."""
  from vmm import findings
  out = []
  for e in load_findings():
    if e.get('status') == 'finding' and e.get('property') == prop_id:
      fn = getattr(findings, e['matcher'], None)
      if fn is None:
        raise HarnessError('known_findings.json names unknown matcher %r' % e['matcher'])
      out.append((e, fn))
  return out


# ---------------------------------------------------------------------------
# per-shard state

class State:

  def __init__(self, prop, suspended=()):
    self.prop = prop
    self.evals = 0
    self.nt = set()
    self.classes = collections.Counter()
    self.dontcare = 0
    self.kinds = collections.Counter()
    self.known = collections.Counter()
    self.suspended = set(suspended)
    self.suspended_hits = collections.Counter()
    self.fail = None
    self.samples = []
    self.matchers = finding_matchers(prop.ID)
    self.first_fail_t = None
    self.shrink_budget = None
    self.witness = {}

  def handle(self, spec, outcome, raise_on_fail=True):
    self.evals += 1
    h = None
    if outcome.get('nt'):
      h = outcome.get('key') or spec_hash(spec)
      if h not in self.nt:
        self.nt.add(h)
        if len(self.samples) < 3:
          self.samples.append(abbreviate(jsonable(spec)))
    for c in outcome.get('cls', ()):
      self.classes[c] += 1
      if c in getattr(self.prop, 'WITNESS_CLASSES', ()) and c not in self.witness:
        self.witness[c] = jsonable(spec)
    self.dontcare += outcome.get('dc', 0)
    fresh = []
    for kind, detail in outcome.get('viol', ()):
      matched = False
      for entry, fn in self.matchers:
        if fn(kind, detail, spec):
          self.known[entry['id']] += 1
          matched = True
          break
      if matched:
        continue
      self.kinds[kind] += 1
      if kind in self.suspended:
        self.suspended_hits[kind] += 1
        continue
      fresh.append((kind, detail))
    if fresh:
      self.fail = {'spec': jsonable(spec), 'kinds': [k for k, _ in fresh],
                   'details': [jsonable(d) for _, d in fresh]}
      if raise_on_fail:
        now = time.time()
        if self.first_fail_t is None:
          self.first_fail_t = now
        elif self.shrink_budget is not None and now - self.first_fail_t > self.shrink_budget:
          raise ShrinkBudgetExhausted(fresh[0][0])
        raise PropertyFailure(fresh[0][0])
    return fresh

  def export(self):
    return {'evals': self.evals, 'nt': sorted(self.nt), 'classes': dict(self.classes),
            'dontcare': self.dontcare, 'kinds': dict(self.kinds), 'known': dict(self.known),
            'suspended_hits': dict(self.suspended_hits), 'fail': self.fail,
            'samples': self.samples, 'witness': self.witness}


def note_inflight(spec):
  """Remember the example that is about to run, so that the parent can name it if this shard has to be killed."""
  path = os.environ.get('VERIF_INFLIGHT')
  if path:
    try:
      with open(path, 'w') as f:
        json.dump(jsonable(spec), f)
    except Exception:  # pylint: disable=broad-except
      pass


def safe_run(prop, spec):
  note_inflight(spec)
  try:
    arm()
    try:
      return prop.run(spec)
    finally:
      disarm()
  except ExampleTimeout:
    return {'viol': [('%s:no-termination' % prop.ID, {'cpu_budget_s': EXAMPLE_CPU_S, 'note': 'the example did not finish within the per-example CPU budget'})],
            'nt': True, 'cls': ['no-termination'], 'dc': 0}
  except PropertyFailure:
    raise
  except Exception as e:  # a bug in the harness, not in the code under test
    raise HarnessError('run() raised %s: %s\n%s\nspec=%s' % (
        type(e).__name__, e, traceback.format_exc(), json.dumps(jsonable(spec))[:2000]))


def _hyp_settings(n, shrink, steps=None):
  from hypothesis import settings, HealthCheck, Phase
  phases = [Phase.explicit, Phase.generate] + ([Phase.shrink] if shrink else [])
  kw = dict(max_examples=max(1, n), database=None, deadline=None, derandomize=False,
            report_multiple_bugs=False, suppress_health_check=list(HealthCheck),
            print_blob=False, phases=phases)
  if steps is not None:
    kw['stateful_step_count'] = steps
  return settings(**kw)


def shard_main(args):
  """Runs in a forked child: one Hypothesis run; returns exported state."""
  prop_id, tier, seed_value, n, suspended = args
  import warnings
  warnings.simplefilter('ignore')
  state = None
  try:
    import hypothesis
    from hypothesis import given, seed as hseed
    prop = load_prop(prop_id)
    state = State(prop, suspended)
    state.shrink_budget = SHRINK_BUDGET_S[tier]
    shrink = getattr(prop, 'SHRINK', {}).get(tier, True)
    try:
      if hasattr(prop, 'machine'):
        from hypothesis.stateful import run_state_machine_as_test
        steps = prop.STEPS[tier]

        def sink(spec, outcome):
          return state.handle(spec, outcome)
        cls = prop.machine(tier, sink)
        cls = hseed(seed_value)(cls)
        run_state_machine_as_test(cls, settings=_hyp_settings(n, shrink, steps))
      if hasattr(prop, 'strategy'):
        strat = prop.strategy(tier)
        n_given = n if not hasattr(prop, 'machine') else max(1, prop.BUDGET_GIVEN[tier] // NSHARDS)

        @hseed(seed_value)
        @_hyp_settings(n_given, shrink)
        @given(strat)
        def test(spec):
          state.handle(spec, safe_run(prop, spec))
        test()
    except (PropertyFailure, ShrinkBudgetExhausted):
      pass
    out = state.export()
    out['error'] = None
    return out
  except HarnessError as e:
    return {'error': 'HarnessError: %s' % e}
  except BaseException as e:  # includes hypothesis errors (Unsatisfiable, Flaky, ...)
    if state is not None and state.fail is not None:
      # a violation was observed and recorded; Hypothesis merely could not reproduce it while shrinking
      # (behaviour that depends on earlier calls in the same process). The recorded failing spec is reported.
      out = state.export()
      out['error'] = None
      out['fail'] = dict(state.fail, note='not reproducible in isolation: %s' % type(e).__name__)
      return out
    return {'error': '%s: %s\n%s' % (type(e).__name__, e, traceback.format_exc())}


def enum_main(args):
  prop_id, tier, lo, hi, suspended = args
  import warnings
  warnings.simplefilter('ignore')
  try:
    prop = load_prop(prop_id)
    state = State(prop, suspended)
    fails = []
    for i, spec in enumerate(prop.enumerate_cases(tier)):
      if i % hi != lo:
        continue
      fresh = state.handle(spec, safe_run(prop, spec), raise_on_fail=False)
      if fresh and len(fails) < 5:
        fails.append(state.fail)
    out = state.export()
    out['fails'] = fails
    out['error'] = None
    return out
  except HarnessError as e:
    return {'error': 'HarnessError: %s' % e}
  except BaseException as e:
    return {'error': '%s: %s\n%s' % (type(e).__name__, e, traceback.format_exc())}


SHARD_CPU_CAP_S = {'quick': 300.0, 'thorough': 4 * 3600.0}     # CPU seconds of one shard in one round (normal: < 150 / < 1500)


def _child(target, arg, conn, inflight):
  os.environ['VERIF_INFLIGHT'] = inflight
  try:
    # a runaway allocation in the code under test becomes a MemoryError there (reported like any other exception)
    import resource
    cap = int(float(os.environ.get('VERIF_SHARD_MEM_GB', '8')) * 2 ** 30)
    resource.setrlimit(resource.RLIMIT_AS, (cap, cap))
  except Exception:  # pylint: disable=broad-except
    pass
  try:
    res = target(arg)
  except BaseException as e:  # pylint: disable=broad-except
    res = {'error': 'shard died: %s: %s' % (type(e).__name__, e)}
  try:
    conn.send(res)
  finally:
    conn.close()


def _cpu_seconds(pid):
  try:
    with open('/proc/%d/stat' % pid) as f:
      parts = f.read().rsplit(')', 1)[1].split()
    return (int(parts[11]) + int(parts[12])) / float(os.sysconf('SC_CLK_TCK'))
  except Exception:  # pylint: disable=broad-except
    return 0.0


def run_parallel(target, args_list, tier, tag):
  """Runs target(arg) for every arg in its own forked process. A shard that uses more CPU time than any quiet run
  needs by a wide margin (or 4x that in wall time, for a process stuck outside user code) is killed; the example it
  was running is returned as {'killed': True, 'inflight': spec} - a hang is reported, the check itself never hangs."""
  ctx = mp.get_context('fork')
  cpu_cap = float(os.environ.get('VERIF_SHARD_CPU_S', SHARD_CPU_CAP_S[tier]))
  wall_cap = 4 * cpu_cap
  d = os.path.join(HERE, 'out', 'inflight')
  os.makedirs(d, exist_ok=True)
  procs = []
  for i, a in enumerate(args_list):
    r, w = ctx.Pipe(duplex=False)
    path = os.path.join(d, '%s-%d-%d.json' % (tag, os.getpid(), i))
    if os.path.exists(path):
      os.unlink(path)
    p = ctx.Process(target=_child, args=(target, a, w, path))
    p.start()
    w.close()
    procs.append({'p': p, 'conn': r, 'res': None, 't0': time.time(), 'path': path})
  pending = set(range(len(procs)))
  while pending:
    for i in sorted(pending):
      pr = procs[i]
      try:
        if pr['conn'].poll(0):
          pr['res'] = pr['conn'].recv()
          pending.discard(i)
          continue
      except (EOFError, OSError):
        pr['p'].join(timeout=5)
        code = pr['p'].exitcode
        if code is not None and code < 0:
          # killed by a signal (out of memory, segmentation fault): report the example it was running
          spec = None
          try:
            with open(pr['path']) as f:
              spec = json.load(f)
          except Exception:  # pylint: disable=broad-except
            pass
          pr['res'] = {'killed': True, 'inflight': spec, 'cpu_cap_s': -float(code), 'signal': -code}
        else:
          pr['res'] = {'error': 'shard %d closed its pipe without a result (exit code %s)' % (i, code)}
        pending.discard(i)
        continue
      if not pr['p'].is_alive():
        if pr['conn'].poll(0.2):
          continue
        pr['res'] = {'error': 'shard %d died without a result (exit code %s)' % (i, pr['p'].exitcode)}
        pending.discard(i)
        continue
      if _cpu_seconds(pr['p'].pid) > cpu_cap or time.time() - pr['t0'] > wall_cap:
        pr['p'].kill()
        spec = None
        try:
          with open(pr['path']) as f:
            spec = json.load(f)
        except Exception:  # pylint: disable=broad-except
          pass
        pr['res'] = {'killed': True, 'inflight': spec, 'cpu_cap_s': cpu_cap}
        pending.discard(i)
    if pending:
      time.sleep(0.25)
  for pr in procs:
    pr['p'].join(timeout=5)
    try:
      pr['conn'].close()
    except Exception:  # pylint: disable=broad-except
      pass
    if os.path.exists(pr['path']):
      try:
        os.unlink(pr['path'])
      except OSError:
        pass
  return [pr['res'] for pr in procs]


def load_prop(prop_id):
  mod = importlib.import_module('vmm.props.%s' % prop_id.lower())
  quiet()
  return mod


def quiet():
  """statsmodels re-enables some warning categories on import; silence them again (after the import)."""
  import warnings
  try:
    import statsmodels.api  # noqa: F401  pylint: disable=unused-import
    import statsmodels.tools.sm_exceptions as sme
    for name in dir(sme):
      obj = getattr(sme, name)
      if isinstance(obj, type) and issubclass(obj, Warning):
        warnings.filterwarnings('ignore', category=obj)
  except Exception:  # pylint: disable=broad-except
    pass
  warnings.simplefilter('ignore')


def merge(total, part):
  total['evals'] += part['evals']
  total['nt'].update(part['nt'])
  for key in ('classes', 'kinds', 'known', 'suspended_hits'):
    for k, v in part[key].items():
      total[key][k] += v
  total['dontcare'] += part['dontcare']
  for s in part['samples']:
    if len(total['samples']) < 3:
      total['samples'].append(s)
  for k, v in part.get('witness', {}).items():
    total.setdefault('witness', {}).setdefault(k, v)


def write_replay(prop_id, seed_value, idx, fail, tier):
  d = os.path.join(HERE, 'out', 'replays')
  os.makedirs(d, exist_ok=True)
  path = os.path.join(d, '%s-%s-%d-%d.json' % (prop_id, tier, seed_value, idx))
  with open(path, 'w') as f:
    json.dump({'property': prop_id, 'seed': seed_value, 'tier': tier,
               'kinds': fail['kinds'], 'details': fail.get('details'),
               'spec': fail['spec']}, f, indent=1, sort_keys=True)
  return path


def replay_file(prop, path, state):
  with open(path) as f:
    doc = json.load(f)
  spec = doc['spec']
  return state.handle(spec, safe_run(prop, spec), raise_on_fail=False)


def run_check(prop_id, tier, seed_value, replay=None):
  t0 = time.time()
  os.environ['VERIF_TIER_EFFECTIVE'] = tier
  prop = load_prop(prop_id)
  findings_entries = [e for e in load_findings() if e.get('property') == prop_id]

  if replay is not None:
    state = State(prop)
    fresh = replay_file(prop, replay, state)
    for k, n in state.known.items():
      print('KNOWN-FINDING: property=%s %s' % (prop_id, k))
    if fresh:
      for kind, detail in fresh:
        print('violation kind=%s detail=%s' % (kind, json.dumps(jsonable(detail))[:1500]))
      print('VIOLATION property=%s replay=%s' % (prop_id, replay))
      return 1
    print('replay ok: no violation (%d known-finding hits)' % sum(state.known.values()))
    return 0

  total = {'evals': 0, 'nt': set(), 'classes': collections.Counter(), 'kinds': collections.Counter(),
           'known': collections.Counter(), 'suspended_hits': collections.Counter(), 'dontcare': 0,
           'samples': []}
  failures = []       # list of fail dicts (minimal spec per kind)
  errors = []

  # 1. corpus replay (regressions of every defect found so far)
  corpus_dir = os.path.join(HERE, 'corpus', prop_id)
  corpus_n = 0
  if os.path.isdir(corpus_dir):
    state = State(prop)
    for name in sorted(os.listdir(corpus_dir)):
      if not name.endswith('.json'):
        continue
      corpus_n += 1
      fresh = replay_file(prop, os.path.join(corpus_dir, name), state)
      if fresh:
        f = dict(state.fail)
        f['source'] = 'corpus/' + name
        failures.append(f)
    merge(total, state.export())
  suspended = set(k for f in failures for k in f['kinds'])

  ctx = mp.get_context('fork')
  exhaustive = False
  # 2. finite sub-domain, if the property has one
  if hasattr(prop, 'enumerate_cases'):
    parts = run_parallel(enum_main, [(prop_id, tier, i, NSHARDS, sorted(suspended)) for i in range(NSHARDS)], tier, prop_id + '-enum')
    for p in parts:
      if p.get('killed'):
        failures.append({'spec': p['inflight'], 'kinds': ['%s:no-termination' % prop_id],
                         'details': [{'note': 'shard killed after %.0f CPU seconds; this was the example it was running' % p['cpu_cap_s']}]})
        suspended.add('%s:no-termination' % prop_id)
        continue
      if p.get('error'):
        errors.append(p['error'])
        continue
      merge(total, p)
      for f in p['fails']:
        if not set(f['kinds']) <= suspended:
          failures.append(f)
          suspended.update(f['kinds'])
    exhaustive = True

  # 3. generated search, collect-then-shrink rounds
  n_total = prop.BUDGET[tier]
  rounds = getattr(prop, 'ROUNDS', {'quick': 2, 'thorough': 5})[tier]
  if n_total > 0 and not errors:
    per = max(1, n_total // NSHARDS)
    for rnd in range(rounds):
      parts = run_parallel(shard_main, [(prop_id, tier, seed_value * 1000 + 100 * rnd + i, per, sorted(suspended))
                                        for i in range(NSHARDS)], tier, prop_id)
      new_kinds = set()
      killed = False
      for p in parts:
        if p.get('killed'):
          if not killed:
            failures.append({'spec': p['inflight'], 'kinds': ['%s:no-termination' % prop_id],
                             'details': [{'note': 'shard killed after %.0f CPU seconds; this was the example it was running' % p['cpu_cap_s']}]})
          killed = True
          continue
        if p.get('error'):
          errors.append(p['error'])
          continue
        merge(total, p)
        if p['fail'] is not None:
          ks = set(p['fail']['kinds'])
          if not ks <= (suspended | new_kinds):
            failures.append(p['fail'])
            new_kinds |= ks
      if errors or killed or not new_kinds:
        break
      suspended |= new_kinds

  # cross-case consistency (e.g. C03: all omissions of a run must be explainable by the same reading of a constraint)
  if hasattr(prop, 'cross_case') and not errors:
    f = prop.cross_case(total.get('witness', {}))
    if f is not None and not set(f['kinds']) <= suspended:
      failures.append(f)

  wall = time.time() - t0
  if errors:
    print('HARNESS-ERROR property=%s %s' % (prop_id, errors[0][:4000]))
    return 2

  # evidence
  nt = len(total['nt'])
  evidence = {
      'property_id': prop_id, 'tier': tier, 'seed': seed_value, 'level': 'exploration',
      'coverage': {
          'evaluations': total['evals'],
          'distinct_nontrivial': nt,
          'rule': prop.RULE,
          'samples': total['samples'] or ['(no non-trivial case)'],
          'exhaustive': bool(exhaustive and getattr(prop, 'EXHAUSTIVE', None)),
          'exhaustive_subdomain': getattr(prop, 'EXHAUSTIVE', {}).get(tier) if hasattr(prop, 'EXHAUSTIVE') else None,
          'classes': dict(sorted(total['classes'].items())),
          'excluded_dont_care': total['dontcare'],
          'known_finding_hits': dict(total['known']),
          'violation_kinds': dict(total['kinds']),
          'corpus_replayed': corpus_n,
          'shards': NSHARDS,
      },
      'assumptions': list(getattr(prop, 'ASSUMPTIONS', [])),
      'wall_s': round(wall, 2),
      'violations': len(failures),
  }
  ev_dir = os.environ.get('VERIF_EVIDENCE_DIR') or os.path.join(HERE, 'evidence')
  os.makedirs(ev_dir, exist_ok=True)
  try:
    import jsonschema
    with open(os.path.join(HERE, 'vmm', 'EVIDENCE.schema.json')) as f:
      schema = json.load(f)
    if nt >= 2:
      jsonschema.validate(evidence, schema)
  except ImportError:
    pass
  except Exception as e:
    print('HARNESS-ERROR property=%s evidence does not validate: %s' % (prop_id, str(e)[:500]))
    return 2
  with open(os.path.join(ev_dir, '%s.json' % prop_id), 'w') as f:
    json.dump(evidence, f, indent=1, sort_keys=True)

  print('%s tier=%s seed=%d evaluations=%d distinct_nontrivial=%d dontcare=%d wall=%.1fs' % (
      prop_id, tier, seed_value, total['evals'], nt, total['dontcare'], wall))
  cls = sorted(total['classes'].items(), key=lambda kv: -kv[1])[:14]
  print('classes: ' + ', '.join('%s=%d' % kv for kv in cls))

  for e in findings_entries:
    if e.get('status') == 'finding':
      hits = total['known'].get(e['id'], 0)
      print('KNOWN-FINDING: property=%s %s: %s (hits this run: %d)' % (prop_id, e['id'], e['what'], hits))

  if failures:
    for i, f in enumerate(failures):
      path = write_replay(prop_id, seed_value, i, f, tier)
      print('violation kinds=%s details=%s' % (f['kinds'], json.dumps(f.get('details'))[:1200]))
      print('VIOLATION property=%s replay=%s' % (prop_id, os.path.relpath(path, HERE)))
    return 1

  floor = prop.FLOOR[tier]
  if nt < floor:
    print('HARNESS-ERROR property=%s vacuous run: distinct_nontrivial=%d below floor %d' % (prop_id, nt, floor))
    return 2
  return 0
