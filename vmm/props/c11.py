"""C11 - count_max_designs equals the size of the enumerated design space.

Three numbers must coincide: the fast count; the number of distinct (T, C) pairs listed by the group generators
over the admissible treatment sizes; the oracle's own count of 3-way assignments (R6) passing sizes and the
Fraction geo ratio. Finite sub-domain enumerated; larger vectors sampled with Hypothesis.
"""
import itertools
from fractions import Fraction

import numpy as np
from hypothesis import strategies as st

ID = 'C11'
RULE = ('(a) exhaustive: every eligibility class-count vector (c_fixed, t_fixed, cx, tx, ct, ctx, x_fixed) with 1..4 geos (quick) / '
        '1..6 (thorough) x settings (treatment range x control range x geo-ratio tolerance; quick: a rotating sixth of the 180 '
        'settings per vector, thorough: all 180); the object is built on a small synthetic panel whose geo order is a drawn '
        'permutation of the classes (eligibility columns int64, bool or Int64); (b) Hypothesis: vectors up to 9 geos with drawn ranges/tolerances and n_geos_max (count over the admitted geos), vectors of 25-45 geos in a few classes checked against an exact polynomial (generating-function) count, and vectors (up to ~40 geos, mostly pinned) whose group sizes sit exactly on the geo-ratio boundary for tolerance (l-s)/s, always listed. '
        'Non-trivial = some setting of the case has count > 0 and >= 2 non-free classes are present; distinct by spec hash.')
BUDGET = {'quick': 160, 'thorough': 4000}
FLOOR = {'quick': 100, 'thorough': 800}
ROUNDS = {'quick': 2, 'thorough': 3}
EXHAUSTIVE = {'quick': 'all class-count vectors with <=4 geos, each with 30 of the 180 (ranges x tolerance) settings (rotating)',
              'thorough': 'all class-count vectors with <=6 geos x all 180 settings'}
ASSUMPTIONS = ['geo-ratio bounds compared exactly (Fractions); the library compares floats: identical for dyadic tolerances; for tolerances such as 1/3 or 2/3 size pairs exactly on the boundary may be counted or not by the oracle, but count and generator listing must still agree']

CLASSES = ['c_fixed', 't_fixed', 'cx', 'tx', 'ct', 'ctx', 'x_fixed']
ROW = {'c_fixed': (1, 0, 0), 't_fixed': (0, 1, 0), 'cx': (1, 0, 1), 'tx': (0, 1, 1), 'ct': (1, 1, 0), 'ctx': (1, 1, 1), 'x_fixed': (0, 0, 1)}
RANGES = [None, (1, 1), (1, 2), (2, 3), (2, 6), (4, 9)]
TOLS = [None, 0.1, 0.5, 1.0, 2.0]
SETTINGS = [(a, b, c) for a in RANGES for b in RANGES for c in TOLS]


def vectors(max_total):
  for total in range(1, max_total + 1):
    for combo in itertools.combinations_with_replacement(range(7), total):
      v = [0] * 7
      for i in combo:
        v[i] += 1
      yield v


def enumerate_cases(tier):
  max_total = 4 if tier == 'quick' else 6
  for i, v in enumerate(vectors(max_total)):
    yield {'vector': v, 'perm_seed': 1000 + i, 'settings': ('rot:%d' % (i % 6)) if tier == 'quick' else 'full', 'search': i % 3 == 0}


@st.composite
def _spec(draw):
  n = draw(st.integers(5, 9))
  v = [0] * 7
  for _ in range(n):
    v[draw(st.sampled_from([0, 1, 2, 3, 4, 4, 5, 5, 5, 6]))] += 1
  sets = []
  for _ in range(draw(st.integers(2, 6))):
    def rng():
      if draw(st.booleans()):
        return None
      a = draw(st.integers(1, 6))
      return [a, a + draw(st.integers(0, 5))]
    tol = draw(st.sampled_from([None, 0.1, 0.25, 0.5, 1.0, 1.5, 2.0, 3.0, 7.0, 2.0 / 3, 1.0 / 3, 0.2]))
    sets.append([rng(), rng(), tol])
  return {'vector': v, 'perm_seed': draw(st.integers(0, 10 ** 6)), 'settings': sets, 'search': False,
          'n_geos_max': draw(st.sampled_from([None, None, 2, 3, 4, 5]))}


@st.composite
def _large(draw):
  """Realistic geo counts (25-45): a few classes only, so that the fast count stays fast; oracle = exact polynomial."""
  v = [0] * 7
  main = draw(st.sampled_from([5, 5, 2, 3, 4]))
  v[main] = draw(st.integers(24, 40))
  for _ in range(draw(st.integers(0, 3))):
    v[draw(st.integers(0, 6))] += draw(st.integers(1, 2))
  sets = []
  n = sum(v)
  for _ in range(draw(st.integers(2, 4))):
    def rng():
      mode = draw(st.integers(0, 2))
      if mode == 0:
        return None
      a = draw(st.integers(1, n // 2 + 2))
      return [a, a + (0 if mode == 1 else draw(st.integers(0, n)))]
    sets.append([rng(), rng(), draw(st.sampled_from([None, None, 0.1, 0.5, 1.0, 3.0]))])
  return {'vector': v, 'perm_seed': draw(st.integers(0, 10 ** 6)), 'settings': sets, 'search': False, 'large': True}


@st.composite
def _boundary(draw):
  """Sizes exactly on the geo-ratio boundary: s geos pinned to one group, l to the other, tolerance (l - s) / s, a few
  loose geos; the space stays small enough to list whatever the number of geos (up to ~40)."""
  b = draw(st.integers(1, 13))
  a = b + draw(st.integers(1, max(1, min(2 * b, 16 - b))))
  m = draw(st.integers(1, max(1, 36 // (a + b))))
  s_, l_ = b * m, a * m
  tol = (a - b) / b
  v = [0] * 7
  small_is_treatment = draw(st.booleans())
  v[1 if small_is_treatment else 0] = s_
  v[0 if small_is_treatment else 1] = l_
  for _ in range(draw(st.integers(0, 3))):
    v[draw(st.sampled_from([2, 3, 4, 5, 6]))] += 1
  for _ in range(draw(st.integers(0, 2))):              # loosen pinned geos
    i = draw(st.sampled_from([0, 1]))
    if v[i] > 1:
      v[i] -= 1
      v[draw(st.sampled_from([4, 5, 2 if i == 0 else 3]))] += 1
  sets = [[None, None, tol]]
  if draw(st.booleans()):
    sets.append([[s_, s_] if small_is_treatment else [l_, l_], [l_, l_] if small_is_treatment else [s_, s_], tol])
  sets.append([None, None, draw(st.sampled_from([tol, 2.0 / 3, 1.0 / 3, 2.0 / 7, 1.0 / 11, 2.0 / 13, 0.2, 0.6]))])
  return {'vector': v, 'perm_seed': draw(st.integers(0, 10 ** 6)), 'settings': sets, 'search': draw(st.booleans()),
          'large': sum(v) > 9, 'list_all': True}


def strategy(tier):
  return st.one_of(_spec(), _spec(), _large(), _boundary())


def build(spec):
  import pandas as pd
  v = spec['vector']
  classes = [c for c, k in zip(CLASSES, v) for _ in range(k)]
  n = len(classes)
  rs = np.random.RandomState(spec['perm_seed'])
  order = rs.permutation(n)
  ids = ['g%02d' % i for i in range(n)]
  cls_of = {ids[i]: classes[order[i]] for i in range(n)}
  dates = pd.date_range('2020-01-01', periods=8)
  t = np.arange(8)
  rows = []
  for i, g in enumerate(ids):
    lv = 10.0 + 3 * ((i * 5) % n)               # size order != id order
    series = lv * (10 + (t * (i + 2)) % 5) + ((i + 1) * t) % 7 + i / 8.0
    rows += [(dates[d], g, float(series[d])) for d in range(8)]
  df = pd.DataFrame(rows, columns=['date', 'geo', 'response'])
  el = pd.DataFrame([(g,) + ROW[cls_of[g]] for g in ids], columns=['geo', 'control', 'treatment', 'exclude'])
  kind = spec['perm_seed'] % 5
  if kind in (1, 2):
    # flags as produced by a comparison (bool) or in a nullable dtype; one column or all three
    for c in (['control', 'treatment', 'exclude'] if spec['perm_seed'] % 2 else ['treatment']):
      el[c] = el[c].astype(bool) if kind == 1 else el[c].astype('Int64')
  return df, el, cls_of


def settings_of(spec):
  s = spec['settings']
  if s == 'full':
    return SETTINGS
  if isinstance(s, str) and s.startswith('rot:'):
    k = int(s[4:])
    return [x for j, x in enumerate(SETTINGS) if j % 6 == k]
  return [(None if a is None else tuple(a), None if b is None else tuple(b), c) for a, b, c in s]


def histogram_poly(counts):
  """Same histogram by exact polynomial multiplication (Python ints): each class contributes a factor in (t, c):
  c_fixed: c, t_fixed: t, cx: 1 + c, tx: 1 + t, ct: c + t, ctx: 1 + c + t. Coefficient of t^a c^b = number of assignments."""
  factors = {'c_fixed': [(0, 1)], 't_fixed': [(1, 0)], 'cx': [(0, 0), (0, 1)], 'tx': [(0, 0), (1, 0)],
             'ct': [(0, 1), (1, 0)], 'ctx': [(0, 0), (0, 1), (1, 0)]}
  poly = {(0, 0): 1}
  for cname, k in counts.items():
    if cname == 'x_fixed':
      continue
    for _ in range(k):
      nxt = {}
      for (a, b), coef in poly.items():
        for da, db in factors[cname]:
          key = (a + da, b + db)
          nxt[key] = nxt.get(key, 0) + coef
      poly = nxt
  return {k: v for k, v in poly.items() if k[0] and k[1]}


def histogram(cls_of):
  """(|T|, |C|) -> number of legal assignments of the admitted geos (x_fixed are never assignable)."""
  geos = sorted(g for g, c in cls_of.items() if c != 'x_fixed')
  choices = []
  for g in geos:
    c, t, x = ROW[cls_of[g]]
    choices.append([a for a, ok in (('c', c), ('t', t), ('x', x)) if ok])
  hist = {}
  for combo in itertools.product(*choices):
    nt = combo.count('t')
    nc = combo.count('c')
    if nt and nc:
      hist[(nt, nc)] = hist.get((nt, nc), 0) + 1
  return hist


def passes(nt, nc, trng, crng, tol, band=False):
  """Exact (Fraction) admissibility of a size pair. Sizes sitting on the ratio boundary of a tolerance for which 1 + tol is
  not computed exactly in floats (1/3, 2/3, 2/13 ...) may go either way in the library: `band` says how to count them."""
  if trng is not None and not trng[0] <= nt <= trng[1]:
    return False
  if crng is not None and not crng[0] <= nc <= crng[1]:
    return False
  if tol is not None:
    hi = 1 + Fraction(tol)
    r = Fraction(nc, nt)
    d = hi.denominator
    if (d & (d - 1) or d > 2 ** 20) and (abs(r - hi) <= Fraction(1, 10 ** 9) * hi or abs(r - 1 / hi) <= Fraction(1, 10 ** 9) / hi):
      return band
    if not 1 / hi <= r <= hi:
      return False
  return True


def run(spec):
  from matched_markets.methodology import geoeligibility, tbrmatchedmarkets, tbrmmdata, tbrmmdesignparameters
  from vmm import core
  df, el, cls_of = build(spec)
  n = len(cls_of)
  large = bool(spec.get('large'))
  hist = histogram_poly(dict(zip(CLASSES, spec['vector'])))
  if not large and hist != histogram(cls_of):
    from vmm import core
    raise core.HarnessError('the two oracle histograms disagree for %s' % spec['vector'])
  viol = []
  cls = ['geos:%s' % (n if n <= 9 else '25+')]
  any_positive = False
  det0 = {'vector': dict(zip(CLASSES, spec['vector']))}
  sets = settings_of(spec)
  for si, (trng, crng, tol) in enumerate(sets):
    det = dict(det0, treatment_geos_range=trng, control_geos_range=crng, geo_ratio_tolerance=tol)
    kw = dict(n_test=1, iroas=1.0, n_designs=10 ** 6)
    if trng is not None:
      kw['treatment_geos_range'] = tuple(trng)
    if crng is not None:
      kw['control_geos_range'] = tuple(crng)
    if tol is not None:
      kw['geo_ratio_tolerance'] = tol
    if spec.get('n_geos_max'):
      kw['n_geos_max'] = spec['n_geos_max']
    want = sum(k for (nt, nc), k in hist.items() if passes(nt, nc, trng, crng, tol))
    want_hi = sum(k for (nt, nc), k in hist.items() if passes(nt, nc, trng, crng, tol, True))
    h_used = hist
    try:
      data = tbrmmdata.TBRMMData(df.copy(), 'response', geoeligibility.GeoEligibility(el.copy()))
      mm = tbrmatchedmarkets.TBRMatchedMarkets(data, tbrmmdesignparameters.TBRMMDesignParameters(**kw))
      if spec.get('n_geos_max'):
        # the count refers to the geos admitted to the search (C01 decides that set); enumerate over exactly those
        adm = {str(g) for g in mm.geos_within_constraints}
        hist_c = histogram({g: c for g, c in cls_of.items() if g in adm})
        want = sum(k for (nt, nc), k in hist_c.items() if passes(nt, nc, trng, crng, tol))
        want_hi = sum(k for (nt, nc), k in hist_c.items() if passes(nt, nc, trng, crng, tol, True))
        h_used = hist_c
        cls.append('n_geos_max')
      got = mm.count_max_designs()
    except ValueError as e:
      # an empty admitted set is reported by ValueError ('geos' is not specified ...): nothing to count
      if want == 0:
        cls.append('ValueError-with-empty-space')
        continue
      viol.append(('C11:count-raised', dict(det, exc=str(e)[:120], want=want)))
      continue
    except Exception as e:  # pylint: disable=broad-except
      viol.append((core.crash_kind('C11', e), dict(det, exc=str(e)[:200])))
      continue
    if want_hi != want:
      cls.append('sizes-on-inexact-ratio-boundary')
    allowed = {want}
    if want_hi != want:
      # each size pair on the boundary is counted as a whole or not at all
      for k in [k for (a, b), k in h_used.items() if passes(a, b, trng, crng, tol, True) and not passes(a, b, trng, crng, tol)][:8]:
        allowed |= {x + k for x in allowed}
    if got not in allowed:
      viol.append(('C11:count-differs-from-assignment-enumeration', dict(det, count_max_designs=int(got), enumerated=want, enumerated_with_boundary_sizes=want_hi)))
    if want > 0:
      any_positive = True
    # generator listing (all settings for small spaces, a rotating part otherwise)
    if (spec.get('list_all') and want_hi <= 4000) or (not large and (n <= 5 or si % 6 == spec['perm_seed'] % 6 or want_hi != want)):
      try:
        idx = list(mm.data.geo_index)
        pairs = []
        for size in mm.treatment_group_size_range():
          for T in mm.treatment_group_generator(size):
            T = frozenset(T)
            for C in mm.control_group_generator(set(T)):
              pairs.append((frozenset(idx[i] for i in T), frozenset(idx[i] for i in C)))
        if len(set(pairs)) != len(pairs):
          viol.append(('C11:generator-lists-a-pair-twice', dict(det, listed=len(pairs), distinct=len(set(pairs)))))
        if len(set(pairs)) != got:
          viol.append(('C11:count-differs-from-generator-listing', dict(det, count_max_designs=int(got), listed=len(set(pairs)))))
        for T, C in set(pairs):
          ok = T and C and not (T & C) and all(ROW[cls_of[g]][1] for g in T) and all(ROW[cls_of[g]][0] for g in C) and \
              all(g in T or g in C for g, c in cls_of.items() if c in ('c_fixed', 't_fixed', 'ct') and (not spec.get('n_geos_max') or g in adm)) and passes(len(T), len(C), trng, crng, tol, True)
          if not ok:
            viol.append(('C11:generator-lists-illegal-pair', dict(det, T=sorted(T), C=sorted(C))))
            break
        cls.append('listing-checked')
      except Exception as e:  # pylint: disable=broad-except
        viol.append((core.crash_kind('C11', e), dict(det, exc=str(e)[:200])))
    # upper bound on what the exhaustive search evaluates
    if spec.get('search') and si == 0 and 0 < want_hi <= 150:
      try:
        found = mm.exhaustive_search()
        if len(found) > got:
          viol.append(('C11:search-returns-more-than-count', dict(det, found=len(found), count=int(got))))
        cls.append('search-bound-checked')
      except ValueError:
        pass
      except Exception as e:  # pylint: disable=broad-except
        viol.append((core.crash_kind('C11', e), dict(det, exc=str(e)[:200])))
    if len(viol) >= 3:
      break
  nonfree = sum(1 for c, k in zip(CLASSES, spec['vector']) if k and c != 'ctx')
  nt = any_positive and nonfree >= 2
  return {'viol': viol[:3], 'nt': nt, 'cls': cls, 'dc': 0}
