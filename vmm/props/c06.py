"""C06 - the TBR posterior of the cumulative effect equals the closed-form model (R8).

Generator: experiment frames (layouts, custom names/labels, unassigned geos/periods, shuffled rows) x
(level, tails, threshold, rescale, report). Oracle: closed-form Kerman-2017 posterior from per-date group
totals aggregated from the generated arrays; layout metamorphic (unshuffled / no unassigned / split geo);
differential with the design-side TBRMMDiagnostics.tbrfit.
"""
import numpy as np
from hypothesis import strategies as st

from vmm import util
from vmm.gen import frames
from vmm.ref import tbrref

ID = 'C06'
RULE = ('Hypothesis experiment frames: n_pre 3..40 (and 85..130 in a quarter of the cases), n_test 1..20, n_cool 0..10, 1-5 geos per group, optional unassigned '
        'geos (labels -1/0/7/NaN) and unassigned periods before/after, date gaps, three layouts (flat / geo index / date '
        'index), custom column names and group/period labels incl. the post-analysis colab layout, shuffled rows; '
        'x use_cooldown x level in (0.01,0.99) x tails x threshold x rescale in (0,1000] x report in {last, all}; in half of the cases the TBR object was first fitted to another frame and queried with rescale != 1. '
        'Non-trivial = n_pre >= 3 with positive residual variance and >= 1 analysed day; distinct by spec hash.')
BUDGET = {'quick': 1280, 'thorough': 50000}
FLOOR = {'quick': 500, 'thorough': 20000}
ASSUMPTIONS = ['scipy.stats.t trusted for quantiles/tails', 'rescale > 0 (it is 1/cost in the only caller)',
               'full panels: every assigned geo has a row on every date']


@st.composite
def _spec(draw):
  fs = draw(frames.experiment_frame_spec('c06'))
  return {
      'frame': fs,
      'use_cooldown': draw(st.booleans()),
      'level': draw(st.sampled_from([0.9, 0.8, 0.95, 0.5, 0.3])) if draw(st.booleans()) else draw(st.floats(0.01, 0.99)),
      'tails': draw(st.sampled_from([1, 2])),
      'threshold': draw(st.sampled_from([0.0, 0.0, 10.0, -50.0, 1000.0])) if draw(st.booleans()) else draw(st.floats(-2000, 2000)),
      'rescale': draw(st.sampled_from([1.0, 1.0, 0.5, 0.01, 3.0, 1000.0])),
      'report': draw(st.sampled_from(['last', 'all'])),
      'time': draw(st.integers(-3, 25)),
      'refit': draw(st.booleans()),
      'scribble': draw(st.booleans()),
  }


def strategy(tier):
  return _spec()


def fit_tbr(df, kwargs, target, use_cooldown):
  from matched_markets.methodology import tbr
  m = tbr.TBR(use_cooldown=use_cooldown)
  m.fit(df, target, **kwargs)
  return m


def run(spec):
  from vmm import core
  from matched_markets.methodology import tbrmmdesignparameters, tbrmmdiagnostics
  fs = spec['frame']
  df, kwargs, truth = frames.materialise(fs)
  target = truth['names']['key_response']
  pre, an = frames.masks(truth, spec['use_cooldown'])
  X, Y = truth['X'], truth['Y']
  viol = []
  cls = ['cooldown:%s' % spec['use_cooldown'], 'report:' + spec['report'], 'tails:%d' % spec['tails'], 'layout:' + fs['layout']]
  if fs['n_before'] or fs['n_after']:
    cls.append('unassigned-periods')
  if any(g['g'] == 'u' for g in fs['geos']):
    cls.append('unassigned-geos')
  if fs['colab']:
    cls.append('colab-layout')
  if fs['names'] or fs['labels']:
    cls.append('custom-names-or-labels')
  if fs['n_pre'] == 3:
    cls.append('n_pre=3')
  if fs['n_pre'] > 90:
    cls.append('n_pre>90')
  post = tbrref.Posterior(X[pre], Y[pre], X[an], Y[an])
  n_an = int(an.sum())
  if post.degenerate or n_an == 0 or not post.sigma2 > 1e-12 * float(np.var(Y[pre])):
    return {'viol': [], 'nt': False, 'cls': ['degenerate'], 'dc': 1}
  det = {'n_pre': fs['n_pre'], 'n_an': n_an, 'level': spec['level'], 'tails': spec['tails'], 'rescale': spec['rescale'],
         'cooldown': spec['use_cooldown']}
  df_before = df.copy(deep=True)
  df_in = df.copy(deep=True) if spec.get('scribble') else df
  try:
    if spec.get('refit'):
      # 'refit' flavour: the model object has already analysed another frame (other totals, other shape) and been queried
      other = dict(fs, n_pre=fs['n_pre'] + 2, factor=fs['factor'] + [3, -2], noise=[e + [5, -7] for e in fs['noise']], lift=fs['lift'] + 16)
      df_o, kw_o, _ = frames.materialise(other)
      m = fit_tbr(df_o, kw_o, target, spec['use_cooldown'])
      m.summary(level=0.8, tails=2, rescale=0.25, report='all')
      m.causal_cumulative_distribution(rescale=4.0)
      m.fit(df_in, target, **kwargs)
      m.summary(level=spec['level'], rescale=spec['rescale'] * 2, tails=spec['tails'])
      cls.append('refit')
    else:
      m = fit_tbr(df_in, kwargs, target, spec['use_cooldown'])
    if spec.get('scribble'):
      # the caller keeps editing its own frame after fit() and before the reports
      if not df_in.equals(df_before):
        viol.append(('C06:input-frame-modified', det))
      frames.scribble(df_in, truth['names'])
      cls.append('caller-edits-frame-after-fit')
    if not df.equals(df_before):
      viol.append(('C06:input-frame-modified', det))
    dist = m.causal_cumulative_distribution()
    loc = np.asarray(dist.kwds['loc'], float)
    sc = np.asarray(dist.kwds['scale'], float)
    dfree = dist.args[0]
    tol_abs = 1e-8 * float(np.max(post.scale))
    if loc.shape != post.loc.shape:
      viol.append(('C06:analysed-days', dict(det, got=list(loc.shape), want=list(post.loc.shape))))
    else:
      if dfree != post.df:
        viol.append(('C06:degrees-of-freedom', dict(det, got=float(dfree), want=post.df)))
      if not util.deep_eq(loc, post.loc, 1e-8, tol_abs):
        viol.append(('C06:location', dict(det, got=loc[:3].tolist(), want=post.loc[:3].tolist())))
      if not util.deep_eq(sc, post.scale, 1e-8):
        viol.append(('C06:scale', dict(det, got=sc[:3].tolist(), want=post.scale[:3].tolist())))
      # periods given explicitly: the test period alone, as a tuple and as a bare label (documented: int or iterable of int)
      pre_t, an_t = frames.masks(truth, False)
      if int(an_t.sum()) >= 1:
        post_t = tbrref.Posterior(X[pre_t], Y[pre_t], X[an_t], Y[an_t])
        lab_test = truth['labels']['period_test']
        for form, per in (('tuple', (lab_test,)), ('bare-label', lab_test)):
          d_t = m.causal_cumulative_distribution(periods=per)
          loc_t, sc_t = np.asarray(d_t.kwds['loc'], float).ravel(), np.asarray(d_t.kwds['scale'], float).ravel()
          if loc_t.shape != post_t.loc.shape or not (util.deep_eq(loc_t, post_t.loc, 1e-8, tol_abs) and util.deep_eq(sc_t, post_t.scale, 1e-8)):
            viol.append(('C06:explicit-periods', dict(det, form=form, label=lab_test, got_days=int(loc_t.shape[0]), want_days=int(post_t.loc.shape[0]))))
        cls.append('explicit-periods')
      # time=t picks day t
      t = spec['time']
      if -n_an <= t < n_an:
        dt = m.causal_cumulative_distribution(time=t)
        if not (util.close(dt.kwds['loc'], post.loc[t], 1e-8, tol_abs) and util.close(dt.kwds['scale'], post.scale[t], 1e-8)):
          viol.append(('C06:time-index', dict(det, t=t)))
        cls.append('time-index')
      # summary
      s = m.summary(level=spec['level'], threshold=spec['threshold'], tails=spec['tails'], report=spec['report'],
                    rescale=spec['rescale'])
      ref = post.summary(spec['level'], spec['tails'], spec['threshold'], spec['rescale'])
      rows = n_an if spec['report'] == 'all' else 1
      an_dates = [d for d, k in zip(truth['dates'], an) if k][-rows:]
      if len(s) != rows or [str(x)[:10] for x in s.index] != [str(x)[:10] for x in an_dates]:
        viol.append(('C06:summary-rows', dict(det, got=len(s), want=rows)))
      else:
        sl = slice(n_an - rows, n_an)
        at = spec['rescale'] * tol_abs
        for col in ('estimate', 'lower', 'upper', 'scale', 'precision'):
          if not util.deep_eq(s[col].values.astype(float), ref[col][sl], 1e-8, at):
            viol.append(('C06:summary:%s' % col, dict(det, got=s[col].values[-1], want=float(ref[col][sl][-1]))))
        if not util.deep_eq(s['probability'].values.astype(float), ref['probability'][sl], 1e-7, 1e-12):
          viol.append(('C06:summary:probability', dict(det, thr=spec['threshold'], got=float(s['probability'].values[-1]),
                                                        want=float(ref['probability'][sl][-1]))))
        if ref['alpha'] <= 0.5:
          lo, es, up = s['lower'].values, s['estimate'].values, s['upper'].values
          if not ((lo <= es + at).all() and (es <= up + at).all()):
            viol.append(('C06:bounds-order', dict(det, lower=float(lo[-1]), estimate=float(es[-1]), upper=float(up[-1]))))
          if not util.deep_eq(s['precision'].values.astype(float), (es - lo).astype(float), 1e-8, at):
            viol.append(('C06:precision-identity', det))
        if spec['tails'] == 1 and not np.isinf(s['upper'].values).all():
          viol.append(('C06:upper-not-inf', det))
      # documented defaults: summary() == summary(level=0.9, threshold=0.0, tails=1, report='last', rescale=1.0); TBR() uses the cooldown
      if spec['time'] % 3 == 0:
        from matched_markets.methodology import tbr as tbr_mod
        s_def = m.summary()
        s_exp = m.summary(level=0.9, threshold=0.0, tails=1, report='last', rescale=1.0)
        if not (list(s_def.columns) == list(s_exp.columns) and util.deep_eq(s_def.values.astype(float), s_exp.values.astype(float), 1e-12)):
          viol.append(('C06:summary-defaults', det))
        m_def = tbr_mod.TBR()
        m_def.fit(df, target, **kwargs)
        d_def = m_def.causal_cumulative_distribution()
        pre_c, an_c = frames.masks(truth, True)
        if int(an_c.sum()) != len(np.atleast_1d(d_def.kwds['loc'])):
          viol.append(('C06:use-cooldown-default', dict(det, got=len(np.atleast_1d(d_def.kwds['loc'])), want=int(an_c.sum()))))
        cls.append('defaults-checked')
      # metamorphic: same totals presented differently
      df2, kw2, _ = frames.materialise(fs, drop_unassigned=True, permute=False, split_first_treatment=True)
      m2 = fit_tbr(df2, kw2, target, spec['use_cooldown'])
      d2 = m2.causal_cumulative_distribution()
      if not (util.deep_eq(np.asarray(d2.kwds['loc'], float), loc, 1e-9, tol_abs) and util.deep_eq(np.asarray(d2.kwds['scale'], float), sc, 1e-9)):
        viol.append(('C06:presentation-dependent', det))
      # differential: the design-side fit on the same data
      if 0.0 < spec['level'] < 1.0:
        par = tbrmmdesignparameters.TBRMMDesignParameters(n_test=n_an, iroas=1.0, sig_level=spec['level'])
        dg = tbrmmdiagnostics.TBRMMDiagnostics(Y[pre], par)
        dg.x = X[pre]
        fit = dg.tbrfit(float(X[an].mean()), float(Y[an].mean()))
        one = m.summary(level=spec['level'], tails=1)
        if not util.close(fit.estimate, one['estimate'].values[-1], 1e-7, 10 * tol_abs):
          viol.append(('C06:design-side-estimate', dict(det, design=float(fit.estimate), tbr=float(one['estimate'].values[-1]))))
        hw = float(one['estimate'].values[-1] - one['lower'].values[-1])
        if not util.close(fit.cihw, hw, 1e-7, 10 * tol_abs):
          viol.append(('C06:design-side-halfwidth', dict(det, design=float(fit.cihw), tbr=hw)))
  except Exception as e:  # pylint: disable=broad-except
    viol.append((core.crash_kind('C06', e), dict(det, exc=str(e)[:300], names=fs['names'], labels=fs['labels'], layout=fs['layout'])))
  return {'viol': viol[:4], 'nt': True, 'cls': cls, 'dc': 0}
