"""C07 - the iROAS summary is coherent with its incremental response and cost.

Fixed-cost scenario: closed-form identities against R8 and against the incremental cost summed from the
generated arrays. Variable-cost scenario: determinism in (data, random_state), bounds order. Both: scenario
label predicate and exact power-of-two unit equivariance.
"""
import numpy as np
from hypothesis import strategies as st

from vmm import util
from vmm.gen import frames
from vmm.ref import tbrref

ID = 'C07'
RULE = ('Hypothesis experiment frames with a cost column in both scenarios (fixed: cost exactly 0 outside treatment x '
        'test/cooldown, total incremental cost >= 1; variable: cost >= 1/64 everywhere with a planted cost lift), default '
        'and post-analysis-colab layouts (key_group=assignment, labels 2/1/-1, period -1 rows, date gaps), with/without '
        'cooldown, tails in {1,2}, level in [0.55,0.99], drawn threshold, random_state, nsims in {500,2000}, unit factors '
        '2^k; in half of the cases the model object was first fitted to (and asked about) a frame of the other cost scenario; '
        'in half of the cases the caller edits its own frame between fit() and the first report. Non-trivial = both groups present, scenario detected as planted and (variable only) cost effect at least 20 '
        'posterior scales from 0 with n_pre >= 10; distinct by spec hash.')
BUDGET = {'quick': 640, 'thorough': 20000}
FLOOR = {'quick': 250, 'thorough': 8000}
ASSUMPTIONS = ['date, period, cost and response columns keep their default names (no caller renames them)',
               'variable scenario: one-tailed level >= 0.6 so that mean vs lower percentile is not decided by Monte-Carlo noise',
               'relative lift is only checked for determinism and unit invariance']

COLS_RATIO = ['estimate', 'lower', 'upper', 'precision']
COLS_RESP = ['incremental_response', 'incremental_response_lower', 'incremental_response_upper']
COLS_SAME = ['probability', 'relative_lift', 'relative_lift_lower', 'relative_lift_upper', 'level']


@st.composite
def _spec(draw):
  fs = draw(frames.experiment_frame_spec('c07'))
  tails = draw(st.sampled_from([1, 2]))
  lo = 0.6 if (fs['cost']['scenario'] == 'variable' and tails == 1) else 0.55
  return {
      'frame': fs,
      'use_cooldown': draw(st.booleans()),
      'level': draw(st.sampled_from([0.9, 0.8, 0.95])) if draw(st.booleans()) else draw(st.floats(lo, 0.99)),
      'tails': tails,
      'threshold': draw(st.sampled_from([0.0, 0.0, 1.0, 0.25, -2.0])),
      'random_state': draw(st.integers(0, 2 ** 31 - 1)),
      'nsims': draw(st.sampled_from([500, 2000])),
      'ka': draw(st.integers(-6, 6)), 'kb': draw(st.integers(-6, 6)),
      'refit': draw(st.booleans()),
      'scribble': draw(st.booleans()),
  }


def strategy(tier):
  return _spec()


def fit_model(df, kwargs, use_cooldown):
  from matched_markets.methodology import tbr_iroas
  m = tbr_iroas.TBRiROAS(use_cooldown=use_cooldown)
  m.fit(df, **kwargs)
  return m


def _summ(m, spec, thr=None):
  return m.summary(level=spec['level'], posterior_threshold=spec['threshold'] if thr is None else thr, tails=spec['tails'],
                   nsims=spec['nsims'], random_state=spec['random_state'])


def _row(rep, col):
  return float(rep[col].values[-1])


def run(spec):
  from vmm import core
  fs = spec['frame']
  df, kwargs, truth = frames.materialise(fs)
  pre, an = frames.masks(truth, spec['use_cooldown'])
  sem = np.array(truth['sem'])
  X, Y, CX, CY = truth['X'], truth['Y'], truth['CX'], truth['CY']
  scen = fs['cost']['scenario']
  viol = []
  cls = ['scenario:' + scen, 'cooldown:%s' % spec['use_cooldown'], 'tails:%d' % spec['tails']]
  if fs['colab']:
    cls.append('colab-layout')
  post = tbrref.Posterior(X[pre], Y[pre], X[an], Y[an])
  if post.degenerate or not post.sigma2 > 0:
    return {'viol': [], 'nt': False, 'cls': ['degenerate'], 'dc': 1}
  det = {'scenario': scen, 'n_pre': fs['n_pre'], 'level': spec['level'], 'tails': spec['tails'], 'cooldown': spec['use_cooldown'],
         'thr': spec['threshold']}
  if scen in ('ctl_test_only', 'pre_only', 'trt_always_on', 'un_pre_only'):
    # only the scenario-label clause applies (the incremental cost model is degenerate by construction)
    want = 'variable'
    if scen == 'pre_only' and not (CX[pre].sum() + CY[pre].sum() > 0):
      want = 'fixed'
    if scen == 'un_pre_only' and not any(g['g'] == 'u' for g in fs['geos']):
      want = 'fixed'
    try:
      rep = _summ(fit_model(df, kwargs, spec['use_cooldown']), spec)
      label = str(rep['scenario'].values[-1])
      if label != want:
        viol.append(('C07:scenario-label', dict(det, got=label, want=want)))
      cls.append('label-only')
    except Exception:  # pylint: disable=broad-except
      cls.append('label-only-exception')
    return {'viol': viol, 'nt': True, 'cls': cls, 'dc': 0}
  if scen == 'variable':
    test_only = sem == 'test'
    cpost = tbrref.Posterior(CX[pre], CY[pre], CX[test_only], CY[test_only])
    if cpost.degenerate or fs['n_pre'] < 10 or not cpost.sigma2 > 0 or abs(cpost.loc[-1]) < 20 * cpost.scale[-1]:
      return {'viol': [], 'nt': False, 'cls': ['degenerate-incremental-cost'], 'dc': 1}
  df_before = df.copy(deep=True)
  df_in = df.copy(deep=True) if spec.get('scribble') else df
  try:
    if spec.get('refit'):
      # 'refit' flavour: the model object has already analysed a frame of the other cost scenario
      other = dict(fs, cost=dict(fs['cost'], scenario='variable' if scen == 'fixed' else 'fixed'))
      df_o, kw_o, _ = frames.materialise(other)
      m = fit_model(df_o, kw_o, spec['use_cooldown'])
      try:
        _summ(m, spec)
        m.estimate_pointwise_and_cumulative_effect(metric='tbr_cost') if spec['use_cooldown'] else None
      except Exception:  # pylint: disable=broad-except
        pass
      m.fit(df_in, **kwargs)
      cls.append('refit')
    else:
      m = fit_model(df_in, kwargs, spec['use_cooldown'])
    if spec.get('scribble'):
      # the caller keeps editing its own frame after fit() and before the first report
      if not df_in.equals(df_before):
        viol.append(('C07:input-frame-modified', det))
      frames.scribble(df_in, truth['names'])
      cls.append('caller-edits-frame-after-fit')
    rep = _summ(m, spec)
    if spec['random_state'] % 3 == 0:
      # the same question asked again on the same fitted object (same arguments, same random_state)
      rep_again = _summ(m, spec)
      for col in rep.columns:
        a_, b_ = rep[col].values, rep_again[col].values
        same = all((x_ == y_) or (isinstance(x_, float) and isinstance(y_, float) and (util.close(x_, y_, 1e-12) or (x_ != x_ and y_ != y_))) for x_, y_ in zip(a_, b_))
        if not same:
          viol.append(('C07:second-report-differs', dict(det, column=str(col), first=str(a_[-1]), second=str(b_[-1]))))
          break
      cls.append('report-asked-twice')
    if not df.equals(df_before):
      viol.append(('C07:input-frame-modified', det))
    if spec['random_state'] % 4 == 0 and spec['use_cooldown']:
      # documented defaults: TBRiROAS() uses the cooldown; summary(level=0.9, posterior_threshold=0.0, tails=1, nsims=10000)
      from matched_markets.methodology import tbr_iroas
      m_d = tbr_iroas.TBRiROAS()
      m_d.fit(*frames.materialise(fs)[:1], **kwargs)
      r_d = m_d.summary(random_state=spec['random_state'])
      r_e = m.summary(level=0.9, posterior_threshold=0.0, tails=1, nsims=10000, random_state=spec['random_state'])
      for col in r_e.columns:
        a, b = r_d[col].values[-1], r_e[col].values[-1]
        if not ((a == b) or (isinstance(a, float) and a != a and b != b)):
          viol.append(('C07:summary-defaults', dict(det, column=col, default=util.summarize(a), explicit=util.summarize(b))))
          break
      cls.append('defaults-checked')
    if len(rep) != 1:
      viol.append(('C07:report-rows', dict(det, rows=len(rep))))
    label = str(rep['scenario'].values[-1])
    if label != scen:
      viol.append(('C07:scenario-label', dict(det, got=label)))
    lo, es, up = _row(rep, 'lower'), _row(rep, 'estimate'), _row(rep, 'upper')
    if not (lo <= es <= up):
      viol.append(('C07:bounds-order', dict(det, lower=lo, estimate=es, upper=up)))
    if spec['tails'] == 1 and up != float('inf'):
      viol.append(('C07:upper-not-inf', det))
    if scen == 'fixed' and label == 'fixed':
      cost = float(CY[an].sum())
      ref = post.summary(spec['level'], spec['tails'], spec['threshold'], 1.0 / cost)
      at = 1e-8 * float(post.scale[-1]) / cost
      if not util.close(_row(rep, 'incremental_cost'), cost, 1e-9):
        viol.append(('C07:incremental-cost', dict(det, got=_row(rep, 'incremental_cost'), want=cost)))
      for col in COLS_RATIO:
        if not util.close(_row(rep, col), float(ref[col][-1]), 1e-8, at):
          viol.append(('C07:fixed:%s' % col, dict(det, got=_row(rep, col), want=float(ref[col][-1]), cost=cost)))
      if not util.close(_row(rep, 'probability'), float(ref['probability'][-1]), 1e-7, 1e-12):
        viol.append(('C07:fixed:probability', dict(det, got=_row(rep, 'probability'), want=float(ref['probability'][-1]))))
      ic = _row(rep, 'incremental_cost')
      atr = 1e-8 * float(post.scale[-1])
      if not util.close(_row(rep, 'incremental_response'), es * ic, 1e-9, atr):
        viol.append(('C07:incremental-response', dict(det, got=_row(rep, 'incremental_response'), want=es * ic)))
      if not util.close(_row(rep, 'incremental_response_lower'), lo * ic, 1e-9, atr):
        viol.append(('C07:incremental-response-lower', dict(det, got=_row(rep, 'incremental_response_lower'), want=lo * ic)))
      if not util.close(_row(rep, 'incremental_response_upper'), up * ic, 1e-9, atr):
        viol.append(('C07:incremental-response-upper', dict(det, got=_row(rep, 'incremental_response_upper'), want=up * ic)))
      # identical to the response model's own summary divided by cost
      rs = m.tbr_response.summary(level=spec['level'], threshold=spec['threshold'] * cost, tails=spec['tails'])
      for col in ('estimate', 'lower', 'upper'):
        if not util.close(_row(rep, col), _row(rs, col) / cost, 1e-9, at):
          viol.append(('C07:fixed-vs-response-summary:%s' % col, det))
    # determinism: a freshly fitted model, same random_state
    df_b, kw_b, _ = frames.materialise(fs)
    rep_b = _summ(fit_model(df_b, kw_b, spec['use_cooldown']), spec)
    for col in rep.columns:
      a, b = rep[col].values[-1], rep_b[col].values[-1]
      same = (a == b) or (isinstance(a, float) and a != a and b != b)
      if not same:
        viol.append(('C07:not-deterministic', dict(det, column=col, a=util.summarize(a), b=util.summarize(b))))
        break
    # unit equivariance, exact powers of two
    a_f, b_f = 2.0 ** spec['ka'], 2.0 ** spec['kb']
    df_s, kw_s, _ = frames.materialise(fs)
    df_s['cost'] = df_s['cost'] * a_f
    df_s['response'] = df_s['response'] * b_f
    rep_s = _summ(fit_model(df_s, kw_s, spec['use_cooldown']), spec, thr=spec['threshold'] * b_f / a_f)
    for cols, fac in ((COLS_RATIO, b_f / a_f), (COLS_RESP, b_f), (['incremental_cost'], a_f), (COLS_SAME, 1.0)):
      for col in cols:
        if not util.close(_row(rep_s, col), _row(rep, col) * fac, 1e-9, 1e-12 * abs(fac)):
          viol.append(('C07:unit-equivariance:%s' % col, dict(det, ka=spec['ka'], kb=spec['kb'], base=_row(rep, col), scaled=_row(rep_s, col))))
    if str(rep_s['scenario'].values[-1]) != label:
      viol.append(('C07:unit-equivariance:scenario', det))
  except Exception as e:  # pylint: disable=broad-except
    viol.append((core.crash_kind('C07', e), dict(det, exc=str(e)[:300], labels=fs['labels'], names=fs['names'], layout=fs['layout'])))
  return {'viol': viol[:4], 'nt': True, 'cls': cls, 'dc': 0}
