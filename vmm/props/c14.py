"""C14 - bounded queue keeps the top k; results ordered and capped.

(a) push/read histories on HeapDict (RuleBasedStateMachine) vs a sorted-list reference model (R9).
(b) search runs: both searches return <= n_designs designs, scores non-increasing (run as extra ops
    'search' inside the same spec format so that one replay function serves both).
"""
import collections

from hypothesis import strategies as st
from hypothesis.stateful import RuleBasedStateMachine, initialize, rule

ID = 'C14'
RULE = ('RuleBasedStateMachine histories over {push(key,item), read, read-and-mutate-snapshot} on HeapDict(k), '
        'k in 0..8 or {256,257,300} (filled by bulk pushes), keys {0,1,"a","b",2.5}, item families {small ints with repeats, wide ints, tuples, floats, '
        'objects defining only __lt__}; after every step get_result() is compared with the sorted-list model. '
        'Plus generated search inputs (both searches): len <= n_designs, scores non-increasing. '
        'Non-trivial history = some key received more than k pushes including an item smaller than everything '
        'retained (discarded on arrival) and an item tying with the current minimum; non-trivial search case = '
        '>=2 designs returned or the cap n_designs was reached; distinct by spec hash.')
BUDGET = {'quick': 3200, 'thorough': 40000}
FLOOR = {'quick': 300, 'thorough': 5000}
STEPS = {'quick': 60, 'thorough': 200}
ASSUMPTIONS = ['ties at the cut-off: any of the equal items may be kept, so multisets are compared on item scores']

KEYS = [0, 1, 'a', 'b', 2.5]
FAMILIES = ['small', 'wide', 'tuple', 'float', 'ltonly']


class LtOnly:
  """What TBRMMDesign provides: only __lt__."""
  __slots__ = ('s', 'tag')

  def __init__(self, s, tag):
    self.s = s
    self.tag = tag

  def __lt__(self, other):
    return self.s < other.s


def make_item(family, score, tag):
  if family in ('small', 'wide'):
    return score
  if family == 'tuple':
    return (score // 4, score % 4)
  if family == 'float':
    return score / 8.0
  return LtOnly(score, tag)


def score_of(family, item):
  if family == 'ltonly':
    return item.s
  if family == 'tuple':
    return item[0] * 4 + item[1]
  if family == 'float':
    return int(round(item * 8))
  return item


class Runner:
  """Applies ops to the real HeapDict and to the model; shared by the machine and by replay."""

  def __init__(self, k, family):
    from matched_markets.methodology import heapdict
    self.k = k
    self.family = family
    self.real = heapdict.HeapDict(k)
    self.model = collections.OrderedDict()
    self.ops = []
    self.viol = []
    self.n = 0
    self.discarded_small = set()
    self.tie_min = set()
    self.searches = []

  def spec(self):
    return {'k': self.k, 'family': self.family, 'ops': list(self.ops)}

  def step(self, op):
    self.ops.append(op)
    try:
      if op[0] == 'push':
        key = KEYS[op[1]]
        score = op[2]
        self.n += 1
        cur = self.model.setdefault(key, [])
        kept = sorted(cur, reverse=True)[:self.k]
        if len(kept) == self.k and self.k > 0:
          if score < kept[-1]:
            self.discarded_small.add(op[1])
          if score == kept[-1]:
            self.tie_min.add(op[1])
        cur.append(score)
        self.real.push(key, make_item(self.family, score, self.n))
        self.compare('after-push')
      elif op[0] == 'bulk':
        key = KEYS[op[1]]
        cur = self.model.setdefault(key, [])
        for i in range(op[4]):
          score = (op[2] * i + op[3]) % 211
          self.n += 1
          cur.append(score)
          self.real.push(key, make_item(self.family, score, self.n))
        self.compare('after-bulk-push')
      elif op[0] == 'read':
        a = self.compare('read')
        b = self.compare('re-read')
        if a is not None and b is not None and self._scores(a) != self._scores(b):
          self.viol.append(('C14:read-changes-content', {'ops': len(self.ops)}))
      elif op[0] == 'mutate':
        r = self.real.get_result()
        how = op[1]
        for key in list(r):
          if how == 0:
            r[key].clear()
          elif how == 1:
            r[key].append(make_item(self.family, 10 ** 6, -1))
            r[key].reverse()
          else:
            del r[key]
        self.compare('after-mutating-snapshot')
    except Exception as e:  # pylint: disable=broad-except
      from vmm import core
      self.viol.append((core.crash_kind('C14', e), {'op': op, 'exc': str(e)[:200]}))

  def _scores(self, res):
    return {repr(k): [score_of(self.family, i) for i in v] for k, v in res.items()}

  def compare(self, where):
    res = self.real.get_result()
    if not isinstance(res, dict):
      self.viol.append(('C14:not-a-dict', {'where': where}))
      return None
    if set(res.keys()) != set(self.model.keys()):
      self.viol.append(('C14:keys', {'where': where, 'got': sorted(map(repr, res)), 'want': sorted(map(repr, self.model))}))
      return res
    for key, pushed in self.model.items():
      want = sorted(pushed, reverse=True)[:self.k]
      got_items = res[key]
      got = [score_of(self.family, i) for i in got_items]
      if len(got) > self.k:
        self.viol.append(('C14:over-capacity', {'where': where, 'key': repr(key), 'len': len(got), 'k': self.k}))
      elif sorted(got) != sorted(want):
        self.viol.append(('C14:not-the-k-largest', {'where': where, 'key': repr(key), 'got': got, 'want': want, 'k': self.k}))
      elif any(got_items[i] < got_items[i + 1] for i in range(len(got_items) - 1)):
        self.viol.append(('C14:not-descending', {'where': where, 'key': repr(key), 'got': got}))
    return res

  def outcome(self):
    nt = False
    cls = ['k=%d' % self.k, 'family:' + self.family]
    for ki, key in enumerate(KEYS):
      if key in self.model and len(self.model[key]) > self.k and ki in self.discarded_small and ki in self.tie_min:
        nt = True
    if any(len(v) > self.k for v in self.model.values()):
      cls.append('eviction')
    if len(self.model) >= 2:
      cls.append('multi-key')
    cls.append('pushes:%s' % ('0' if self.n == 0 else '1-10' if self.n <= 10 else '11-50' if self.n <= 50 else '>50'))
    return {'viol': list(self.viol), 'nt': nt, 'cls': cls, 'dc': 0}


def run(spec):
  if spec.get('search') is not None:
    return run_search(spec)
  r = Runner(spec['k'], spec['family'])
  for op in spec['ops']:
    r.step(list(op))
  return r.outcome()


def machine(tier, sink):

  class HeapMachine(RuleBasedStateMachine):

    def __init__(self):
      super().__init__()
      self.r = None
      self.done = False
      from vmm import core
      core.arm()

    @initialize(k=st.sampled_from(list(range(9)) * 3 + [256, 257, 300]), family=st.sampled_from(FAMILIES))
    def init(self, k, family):
      self.r = Runner(k, family)
      self.wide = family == 'wide'

    def _after(self):
      if self.r.viol and not self.done:
        self.done = True
        sink(self.r.spec(), self.r.outcome())

    @rule(key=st.integers(0, len(KEYS) - 1), small=st.integers(0, 9), wide=st.integers(-1000, 1000), use_wide=st.booleans())
    def push(self, key, small, wide, use_wide):
      self.r.step(['push', key, wide if (self.wide or (use_wide and self.r.family != 'small')) else small])
      self._after()

    @rule(key=st.integers(0, len(KEYS) - 1), scores=st.lists(st.integers(0, 9), min_size=2, max_size=12))
    def push_burst(self, key, scores):
      for sc in scores:
        self.r.step(['push', key, sc * (37 if self.wide else 1)])
        self._after()

    @rule(key=st.integers(0, len(KEYS) - 1), a=st.sampled_from([1, 7, 13, 37]), b=st.integers(0, 50), n=st.integers(150, 400))
    def push_bulk(self, key, a, b, n):
      # a long run of pushes under one key (capacities in the hundreds only fill up this way)
      self.r.step(['bulk', key, a, b, n])
      self._after()

    @rule()
    def read(self):
      self.r.step(['read'])
      self._after()

    @rule(how=st.integers(0, 2))
    def mutate(self, how):
      self.r.step(['mutate', how])
      self._after()

    def teardown(self):
      from vmm import core
      core.disarm()
      if self.r is not None and not self.done:
        self.done = True
        sink(self.r.spec(), self.r.outcome())

  return HeapMachine


# ---- (b) search runs: both searches return <= n_designs designs in non-increasing score order

BUDGET_GIVEN = {'quick': 320, 'thorough': 8000}


def strategy(tier):
  from vmm.gen import search as G

  @st.composite
  def _s(draw):
    base = draw(st.one_of(G.search_spec(max_geos=6, min_geos=3, constraint_p=0.25),
                          G.search_spec(max_geos=6, min_geos=3, constraint_p=0.2, elig_style='none'),
                          G.search_spec(max_geos=6, min_geos=6, constraint_p=0.0, elig_style='none')))
    base['params']['n_designs'] = draw(st.sampled_from([1, 2, 3, 5, 10, 50, 300, 257]))
    return {'search': base}
  return _s()


def run_search(spec):
  from vmm.props import c03
  from vmm.ref import searchlib as L
  case = L.materialise(spec['search'])
  k = case.kwargs['n_designs']
  viol = []
  cls = ['search-case', 'n_designs=%d' % k, 'history:%s' % spec['search'].get('history')]
  nt = False
  for method in ('exhaustive_search', 'greedy_search'):
    tag = method.split('_')[0]
    res = L.run_search(case, method, history=spec['search'].get('history'))
    if res[0] != 'ok':
      cls.append('%s:%s' % (tag, res[0]))
      continue
    recs = res[1]
    if len(recs) > k:
      viol.append(('C14:%s:more-than-n_designs' % tag, {'n': len(recs), 'n_designs': k, 'case': L.describe(case)}))
    for i in range(len(recs) - 1):
      if c03.gt(recs[i + 1]['score'], recs[i]['score']):
        viol.append(('C14:%s:not-best-first' % tag, {'pos': i, 'a': [float(t) for t in recs[i]['score']],
                                                     'b': [float(t) for t in recs[i + 1]['score']], 'case': L.describe(case)}))
        break
    if len(recs) >= 2 or len(recs) == k:
      nt = True
    cls.append('%s:%s' % (tag, '0' if not recs else '1' if len(recs) == 1 else 'cap' if len(recs) == k else '2+'))
  return {'viol': viol, 'nt': nt, 'cls': cls, 'dc': 0}
