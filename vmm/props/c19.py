"""C19 - post-analysis data screening removes exactly what it reports."""
import copy

import numpy as np
from hypothesis import strategies as st

from vmm import util
from vmm.gen import frames

ID = 'C19'
RULE = ('Hypothesis flat experiment frames: 2..12 geos over both groups (+ excluded geos in the colab layout), n_pre 8..40, '
        'test and cooldown periods, planted noisy geos (independent noise or constant series, when >= 5 geos), excluded geos with 3-7 days more history than the assigned ones, planted '
        'outlier cell (+50..500 on one date), custom column names / group and period labels, target given or defaulted, '
        'shuffled rows; in half of the cases the diagnostics object had already been fitted to another frame. Non-trivial = >= 4 geos (noisy-geo detection active) and (>= 1 noisy geo or >= 1 outlier date '
        'reported); distinct by spec hash.')
BUDGET = {'quick': 640, 'thorough': 12000}
FLOOR = {'quick': 60, 'thorough': 1000}
ASSUMPTIONS = ['full panels (every geo on every date)', 'detection power is not claimed: planted signals are classes, not assertions',
               'documented ValueErrors (a group emptied by the screening, < 4 observations) are accepted outcomes']


@st.composite
def _spec(draw):
  fs = draw(frames.experiment_frame_spec('c19'))
  return {'frame': fs, 'pass_target': draw(st.booleans()), 'refit': draw(st.booleans()), 'scribble': draw(st.booleans())}


def strategy(tier):
  return _spec()


def _rows(df, cols):
  out = []
  for rec in df[cols].itertuples(index=False, name=None):
    out.append(tuple(repr(v) if (isinstance(v, float) and v != v) else (str(v)[:10] if hasattr(v, 'year') else v) for v in rec))
  return sorted(out, key=repr)


def _fit(df, kwargs, target, d=None):
  from matched_markets.methodology import tbrdiagnostics
  d = d or tbrdiagnostics.TBRDiagnostics()
  if target is None:
    d.fit(df, **kwargs)
  else:
    d.fit(df, target=target, **kwargs)
  return d


def run(spec):
  from vmm import core
  fs = spec['frame']
  df, kwargs, truth = frames.materialise(fs)
  names = truth['names']
  lab = truth['labels']
  target = names['key_response'] if spec['pass_target'] else None
  cols = [names['key_date'], names['key_geo'], names['key_group'], names['key_period'], names['key_response']]
  viol = []
  n_geos = len(fs['geos'])
  cls = ['geos:%s' % ('<4' if n_geos < 4 else '4-6' if n_geos <= 6 else '>6')]
  if any(g.get('kind') for g in fs['geos']):
    cls.append('planted-noisy-geo')
  if fs.get('outlier'):
    cls.append('planted-outlier')
  if fs['names'] or fs['labels']:
    cls.append('custom-names-or-labels')
  if fs['colab']:
    cls.append('colab-layout')
  before = df.copy(deep=True)
  det = {'n_geos': n_geos, 'n_pre': fs['n_pre'], 'names': fs['names'], 'labels': fs['labels']}
  try:
    d0 = None
    if spec.get('refit'):
      # 'refit' flavour: the diagnostics object has already screened another frame (more geos / a planted outlier)
      other = dict(fs, outlier={'pos': 2, 'amount': 500, 'geo': 0}, geos=[dict(g, kind='ind') if i == 1 else g for i, g in enumerate(fs['geos'])])
      try:
        kw0 = dict(kwargs)
        if fs['perm_seed'] % 2:
          # ... and with the control / treatment labels the other way round
          lab0 = truth['labels']
          kw0['group_control'], kw0['group_treatment'] = lab0['group_treatment'], lab0['group_control']
        d0 = _fit(frames.materialise(other)[0], kw0, target)
        cls.append('refit')
      except Exception:  # pylint: disable=broad-except
        d0 = None
    df_in = df.copy(deep=True) if spec.get('scribble') else df
    d = _fit(df_in, kwargs, target, d0)
    if spec.get('scribble'):
      # the caller goes on editing its own frame (unit change, two rows dropped in place) before reading the results
      if not df_in.equals(before):
        viol.append(('C19:caller-frame-modified', det))
      frames.scribble(df_in, names)
      cls.append('caller-edits-frame-after-fit')
  except ValueError as e:
    msg = str(e)
    if 'Both control and treatment group ids must be present' in msg or 'at least 4' in msg:
      return {'viol': [], 'nt': False, 'cls': cls + ['documented-ValueError'], 'dc': 0}
    return {'viol': [(core.crash_kind('C19', e), dict(det, exc=msg[:200]))], 'nt': True, 'cls': cls + ['raised'], 'dc': 0}
  except Exception as e:  # pylint: disable=broad-except
    return {'viol': [(core.crash_kind('C19', e), dict(det, exc=str(e)[:200]))], 'nt': True, 'cls': cls + ['raised'], 'dc': 0}
  try:
    if not df.equals(before):
      viol.append(('C19:caller-frame-modified', det))
    res = d.get_test_results()
    noisy = list(res['noisy_geos'] or [])
    outl = list(res['outlier_dates'] or [])
    if noisy:
      cls.append('noisy-geos-reported')
    if outl:
      cls.append('outlier-dates-reported')
    if res['noisy_geos'] is None:
      cls.append('noisy-detection-inactive')
    data = d.get_data()
    keep = ~before[names['key_geo']].isin(noisy) & ~before[names['key_date']].isin(outl)
    want = before[keep.values]
    if _rows(data, cols) != _rows(want, cols):
      viol.append(('C19:screened-data-differs-from-report', dict(det, noisy=[str(x) for x in noisy], outliers=[str(x)[:10] for x in outl],
                                                                got_rows=len(data), want_rows=len(want))))
    if set(data.columns) != set(before.columns):
      viol.append(('C19:screened-data-columns', det))
    # analysis series = per-date totals of the screened data
    an = d.get_analysis_data()
    # (a date on which neither group has a row - e.g. extra history of excluded geos - has no totals and no entry)
    in_groups = want[names['key_group']].isin([lab['group_control'], lab['group_treatment']])
    dates = sorted(set(want[names['key_date']][in_groups.values]))
    grp = want[names['key_group']]
    g = want[[names['key_date'], names['key_response']]]
    xs = {}
    ys = {}
    per = {}
    for dt, gl, pl, v in zip(want[names['key_date']], grp, want[names['key_period']], want[names['key_response']]):
      per[dt] = pl
      if gl == lab['group_control']:
        xs[dt] = xs.get(dt, 0.0) + v
      elif gl == lab['group_treatment']:
        ys[dt] = ys.get(dt, 0.0) + v
    if [str(x)[:10] for x in an.index] != [str(x)[:10] for x in dates]:
      viol.append(('C19:analysis-dates', dict(det, got=len(an), want=len(dates))))
    else:
      wx = np.array([xs.get(dt, np.nan) for dt in dates])
      wy = np.array([ys.get(dt, np.nan) for dt in dates])
      if not (util.deep_eq(np.asarray(an['x'], float), wx, 1e-9) and util.deep_eq(np.asarray(an['y'], float), wy, 1e-9)):
        viol.append(('C19:analysis-series', det))
      if [int(p) for p in an[names['key_period']]] != [int(per[dt]) for dt in dates]:
        viol.append(('C19:analysis-period', det))
    # row-order independence
    df2, kw2, _ = frames.materialise(fs, permute=False)
    d2 = _fit(df2, kw2, target)
    r2 = d2.get_test_results()
    if sorted(map(str, r2['noisy_geos'] or [])) != sorted(map(str, noisy)) or (r2['noisy_geos'] is None) != (res['noisy_geos'] is None):
      viol.append(('C19:row-order:noisy-geos', dict(det, a=[str(x) for x in noisy], b=[str(x) for x in (r2['noisy_geos'] or [])])))
    if sorted(str(x)[:10] for x in (r2['outlier_dates'] or [])) != sorted(str(x)[:10] for x in outl):
      viol.append(('C19:row-order:outlier-dates', det))
    an2 = d2.get_analysis_data()
    if not (len(an2) == len(an) and util.deep_eq(np.asarray(an2['x'], float), np.asarray(an['x'], float), 1e-12)
            and util.deep_eq(np.asarray(an2['y'], float), np.asarray(an['y'], float), 1e-12)):
      viol.append(('C19:row-order:analysis-series', det))
    if bool(r2['corr_test']) != bool(res['corr_test']):
      viol.append(('C19:row-order:corr-test', det))
  except Exception as e:  # pylint: disable=broad-except
    viol.append((core.crash_kind('C19', e) if 'matched_markets' in repr(e.__traceback__) else 'C19:check-error:%s' % type(e).__name__,
                 dict(det, exc=str(e)[:300])))
  nt = n_geos >= 4 and ('noisy-geos-reported' in cls or 'outlier-dates-reported' in cls)
  return {'viol': viol[:4], 'nt': nt, 'cls': cls, 'dc': 0}
