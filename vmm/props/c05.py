"""C05 - required impact is calibrated to the post-analysis test at the stated power.

(a) closed form R4; (b) differential: design-side required impact vs tbr.TBR run on an experiment constructed
so that the control mean is displaced by the planning F-quantile and the test period shows exactly that lift;
(c) metamorphic laws (2^k scaling, level shifts, strict monotonicity in |rho|, evenness).
"""
import math

import numpy as np
from hypothesis import strategies as st

from vmm import util
from vmm.ref import diag as R

ID = 'C05'
RULE = ('Hypothesis pretest pairs (x, y), n in 3..60, y and x = loadings on a common random-walk factor + dyadic noise '
        '(|r| from ~0 to ~0.9999), n_test 1..30, sig/power in (0.02,0.98), flevel in [0.9,0.999]; for each: closed form R4, '
        'the constructed-experiment differential against tbr.TBR.summary(level=sig, tails=1) (a third of the cases also with the frame in whole units, int64 vs float64), 2^k scaling, level shifts, '
        'monotonicity/evenness in rho on a grid; in half of the cases the metamorphic variants are fed to the same object through its setters. Non-trivial = residual sd > 1e-6 sd(y) and n >= 4; distinct by spec hash.')
BUDGET = {'quick': 1600, 'thorough': 100000}
FLOOR = {'quick': 600, 'thorough': 30000}
ASSUMPTIONS = ['scipy.stats t/F quantile functions are trusted', 'differential tolerance 1e-7 relative, closed form 1e-9']


@st.composite
def _spec(draw):
  n = draw(st.one_of(st.integers(3, 9), st.integers(3, 60), st.integers(10, 60), st.integers(3, 60), st.integers(95, 170)))
  n_test = draw(st.one_of(st.integers(1, 4), st.integers(1, 30)))
  spec = {
      'n': n, 'n_test': n_test,
      'sig': draw(st.sampled_from([0.9, 0.8, 0.95, 0.5, 0.6, 0.975, 0.03, 0.3])) if draw(st.booleans()) else draw(st.floats(0.02, 0.98)),
      'power': draw(st.sampled_from([0.8, 0.5, 0.9, 0.1])) if draw(st.booleans()) else draw(st.floats(0.02, 0.98)),
      'flevel': draw(st.sampled_from([0.9, 0.95, 0.99, 0.999])) if draw(st.booleans()) else draw(st.floats(0.9, 0.999)),
      'factor': draw(st.lists(st.integers(-8, 8), min_size=n, max_size=n)),
      'ex': draw(st.lists(st.integers(-128, 128), min_size=n, max_size=n)),
      'ey': draw(st.lists(st.integers(-128, 128), min_size=n, max_size=n)),
      'lx': draw(st.sampled_from([1, 2, 3, 5])), 'ly': draw(st.sampled_from([1, 2, 4, 7, -1])),
      'ax': draw(st.sampled_from([0, 4, 64, 512])), 'ay': draw(st.sampled_from([4, 16, 64, 256, 1024, 4096])),
      'k': draw(st.one_of(st.integers(-8, 8), st.sampled_from([-40, -30, -20, 20, 30, 40]))), 'sa': draw(st.integers(-1000, 1000)), 'sb': draw(st.integers(-1000, 1000)),
      'spread': draw(st.lists(st.integers(-64, 64), min_size=n_test, max_size=n_test)),
      'tnoise': draw(st.lists(st.integers(-64, 64), min_size=n_test, max_size=n_test)),
      'rhos': sorted(set(draw(st.lists(st.integers(0, 999), min_size=2, max_size=5)))),
      'reuse': draw(st.booleans()),
      'big_shift': draw(st.sampled_from([0, 0, 10 ** 5, 10 ** 6, -10 ** 6])),
  }
  return spec


def strategy(tier):
  return _spec()


def series(spec):
  n = spec['n']
  t = np.arange(n, dtype=float)
  f = 200.0 + np.cumsum(np.asarray(spec['factor'], float))
  x = spec['lx'] * f + spec['ax'] * np.asarray(spec['ex'], float) / 256.0 + ((3 * t) % 7) / 8.0
  y = spec['ly'] * f + spec['ay'] * np.asarray(spec['ey'], float) / 256.0 + ((5 * t) % 11) / 8.0 + 500.0
  return np.round(x * 1024) / 1024, np.round(y * 1024) / 1024


def lib_impact(x, y, par_kw):
  from matched_markets.methodology import tbrmmdesignparameters, tbrmmdiagnostics
  par = tbrmmdesignparameters.TBRMMDesignParameters(**par_kw)
  d = tbrmmdiagnostics.TBRMMDiagnostics(y, par)
  d.x = x
  return d, d.required_impact


def run(spec):
  import pandas as pd
  from matched_markets.methodology import tbr
  from vmm import core
  viol = []
  cls = []
  n, T = spec['n'], spec['n_test']
  x, y = series(spec)
  par_kw = dict(n_test=T, iroas=1.0, sig_level=spec['sig'], power_level=spec['power'], flevel=spec['flevel'])
  fit = R.ols(x, y)
  sdy = R.sd2(y) if n > 2 else 0.0
  if fit is None or not (fit[2] > 1e-6 * sdy) or sdy <= 0:
    return {'viol': [], 'nt': False, 'cls': ['degenerate-residual-variance'], 'dc': 1}
  a, b, sigma, _ = fit
  corr = R.pearson(x, y)
  det = {'n': n, 'n_test': T, 'sig': spec['sig'], 'power': spec['power'], 'flevel': spec['flevel'], 'corr': corr}
  try:
    d, I = lib_impact(x, y, par_kw)
  except Exception as e:  # pylint: disable=broad-except
    return {'viol': [(core.crash_kind('C05', e), dict(det, exc=str(e)[:200]))], 'nt': True, 'cls': ['crash'], 'dc': 0}
  cls.append('n=3' if n == 3 else 'n:4-10' if n <= 10 else 'n:>10')
  cls.append('|r|:%s' % ('<0.5' if abs(corr) < 0.5 else '<0.9' if abs(corr) < 0.9 else '<0.99' if abs(corr) < 0.99 else '>=0.99'))
  # (a) closed form
  want = R.required_impact(y, corr, par_kw)
  cond = 2e-15 / max(1e-300, 1.0 - corr * corr)   # 1 - rho^2 amplifies the last ulp of rho
  if not util.close(I, want, 1e-9 + cond):
    viol.append(('C05:closed-form', dict(det, got=float(I), want=want)))
  tsig = R.t_ppf(spec['sig'], n - 2)
  tpow = R.t_ppf(spec['power'], n - 2)
  # (c) metamorphic
  try:
    s = 2.0 ** spec['k']
    reuse = spec.get('reuse', False)

    def impact_of(xv, yv):
      # 'reuse' flavour: the same diagnostics object is given the new series through its setters
      if not reuse:
        return lib_impact(xv, yv, par_kw)[1]
      # ... from work buffers which the caller overwrites straight after handing them over (the object must keep
      # the values it was given)
      bx, by = np.array(xv, dtype=float), np.array(yv, dtype=float)
      d.y = by
      d.x = bx
      by *= 4.0
      bx[:] = bx[::-1] + 1.0
      return d.required_impact
    I2 = impact_of(x * s, y * s)
    if not util.close(I2, I * s, 1e-12):
      viol.append(('C05:unit-scaling', dict(det, k=spec['k'], got=float(I2), want=float(I * s))))
    I3 = impact_of(x + spec['sa'], y + spec['sb'])
    if spec.get('big_shift'):
      # a level far above the day-to-day spread (e.g. cumulative counters): still exactly representable, and the
      # two-pass moments of the reference keep ~1e-10 relative accuracy there
      I4 = impact_of(x + spec['big_shift'], y + spec['big_shift'])
      if not util.close(I4, I, 1e-7):
        viol.append(('C05:level-shift', dict(det, shift=spec['big_shift'], got=float(I4), want=float(I))))
      cls.append('big-level-shift')
    if reuse:
      m = len(y) // 2 + 2
      if 3 <= m < len(y):
        I_m = impact_of(x[:m], y[:m])          # a series of another length in between
        I_m_fresh = lib_impact(x[:m], y[:m], par_kw)[1]
        if not util.close(I_m, I_m_fresh, 1e-13):
          viol.append(('C05:object-reuse-changes-required-impact', dict(det, reused=float(I_m), fresh=float(I_m_fresh), m=m)))
      I_back = impact_of(x, y)
      if not util.close(I_back, I, 1e-13):
        viol.append(('C05:object-reuse-changes-required-impact', dict(det, first=float(I), after_reuse=float(I_back))))
      cls.append('reuse')
    if not util.close(I3, I, 1e-8):
      viol.append(('C05:level-shift', dict(det, got=float(I3), want=float(I))))
    rhos = [r / 1000.0 for r in spec['rhos']]
    vals = [d.estimate_required_impact(r) for r in rhos]
    for i in range(len(rhos) - 1):
      if (tsig + tpow) > 0 and not vals[i] > vals[i + 1]:
        viol.append(('C05:not-decreasing-in-rho', dict(det, rho=rhos[i:i + 2], I=[float(v) for v in vals[i:i + 2]])))
        break
      if (tsig + tpow) < 0 and not vals[i] < vals[i + 1]:
        viol.append(('C05:not-decreasing-in-rho', dict(det, rho=rhos[i:i + 2], I=[float(v) for v in vals[i:i + 2]])))
        break
    for r in rhos[:2]:
      if not util.close(d.estimate_required_impact(-r), d.estimate_required_impact(r), 1e-13):
        viol.append(('C05:not-even-in-rho', dict(det, rho=r)))
    if not util.close(d.estimate_required_impact(d.corr), I, 1e-12):
      viol.append(('C05:required-impact-vs-estimate', det))
  except Exception as e:  # pylint: disable=broad-except
    viol.append((core.crash_kind('C05', e), dict(det, exc=str(e)[:200])))
  # (b) differential with the analysis path
  xm, _, sxx, _, _ = R.moments(x, y)
  phi = R.f_ppf(spec['flevel'], n - 1)
  delta = math.sqrt(phi * (n + 1) / (n * T * (n - 1)) * sxx)
  sp = np.asarray(spec['spread'], float)
  sp = (sp - sp.mean()) * (math.sqrt(sxx / n) / 32.0 if T > 1 else 0.0)
  x_test = xm + delta + sp
  tn = np.asarray(spec['tnoise'], float)
  tn = (tn - tn.mean()) * sigma / 16.0
  y_test = a + b * x_test + float(I) / T + tn
  dates = pd.date_range('2021-03-01', periods=n + T)
  frame = pd.DataFrame({
      'date': list(dates) * 2,
      'geo': [1] * (n + T) + [2] * (n + T),
      'group': [1] * (n + T) + [2] * (n + T),
      'period': ([0] * n + [1] * T) * 2,
      'response': list(x) + list(x_test) + list(y) + list(y_test)})
  if spec['sa'] % 2:
    frame = frame.iloc[np.random.RandomState(abs(spec['sb']) + 1).permutation(len(frame))].reset_index(drop=True)
    cls.append('shuffled-rows')
  try:
    m = tbr.TBR(use_cooldown=False)
    m.fit(frame, 'response')
    summ = m.summary(level=spec['sig'], tails=1)
    row = summ.iloc[-1]
    scale = float(row['scale'])
    tol = 1e-7 + cond            # (both sides go through 1 - rho^2: same conditioning as the closed form)
    ref_scale = abs(float(I)) if I != 0 else 1.0
    if not util.close(scale * (tsig + tpow), I, tol, atol=1e-9 * ref_scale):
      viol.append(('C05:scale-times-quantiles', dict(det, scale=scale, got=scale * (tsig + tpow), want=float(I))))
    if not util.close(row['estimate'], I, tol, atol=1e-7 * scale):
      viol.append(('C05:post-analysis-estimate', dict(det, estimate=float(row['estimate']), want=float(I))))
    if not util.close(row['lower'], tpow * scale, tol, atol=1e-7 * scale):
      viol.append(('C05:post-analysis-lower-bound', dict(det, lower=float(row['lower']), want=tpow * scale)))
    if spec['sb'] % 3 == 0:
      # the same experiment recorded in whole units: an integer-typed response column must give the post-analysis
      # quantities of the same numbers held as floats
      whole = np.round(frame['response'].to_numpy() * 8.0)
      f_int = frame.assign(response=whole.astype('int64'))
      f_flt = frame.assign(response=whole.astype('float64'))
      rows = []
      for fr in (f_int, f_flt):
        mi = tbr.TBR(use_cooldown=False)
        mi.fit(fr, 'response')
        rows.append(mi.summary(level=spec['sig'], tails=1).iloc[-1])
      for col in ('estimate', 'scale', 'lower', 'precision'):
        if not util.close(float(rows[0][col]), float(rows[1][col]), 1e-10, atol=1e-10 * abs(float(rows[1]['scale']))):
          viol.append(('C05:integer-typed-frame:%s' % col, dict(det, as_int=float(rows[0][col]), as_float=float(rows[1][col]))))
      cls.append('integer-typed-frame')
  except Exception as e:  # pylint: disable=broad-except
    viol.append((core.crash_kind('C05', e), dict(det, exc=str(e)[:200])))
  return {'viol': viol, 'nt': n >= 4, 'cls': cls, 'dc': 0}
