"""C15 - the canonical data object faithfully represents the input panel."""
import numpy as np
from hypothesis import strategies as st

from vmm import util
from vmm.gen import search as G
from vmm.ref import searchlib as L

ID = 'C15'
RULE = ('Hypothesis long frames (<=7 geos x <=14 dates, missing cells up to ~20% (absent rows, or rows present with a NaN value), optionally a geo with no rows, int/str IDs, '
        'shuffled rows, response column name, extra column) x eligibility in {none, = data, subset of data, superset with '
        'excludable extras, superset with a non-excludable extra, disjoint from the data (all excludable)} x a drawn ordered sub-list of the assignable geos as '
        'geo_index (optionally with a non-assignable geo; in half of the cases after the index had been set to another list and used) x drawn index sets. Oracle: independent pivot, means, shares, '
        'eligibility classes and aggregates. Non-trivial = >=2 geos and (missing cells or eligibility != data or index order != '
        'row order); distinct by spec hash.')
BUDGET = {'quick': 1600, 'thorough': 50000}
FLOOR = {'quick': 500, 'thorough': 15000}
ASSUMPTIONS = ['no duplicate (geo, date) rows', 'geo_index given as a list of string IDs (what TBRMatchedMarkets passes)']

CLASS_OF = {(1, 0, 0): 'c_fixed', (0, 1, 0): 't_fixed', (0, 0, 1): 'x_fixed', (1, 1, 0): 'ct', (1, 0, 1): 'cx', (1, 1, 1): 'ctx', (0, 1, 1): 'tx'}


@st.composite
def _spec(draw):
  panel = draw(G.panel_spec(max_geos=7, min_geos=1, max_dates=14))
  n_g, n_d = len(panel['ids']), panel['n_dates']
  miss = []
  mode = draw(st.integers(0, 3))
  if mode >= 1:
    k = draw(st.integers(0, max(1, (n_g * n_d) // 5)))
    cells = draw(st.lists(st.tuples(st.integers(0, n_g - 1), st.integers(0, n_d - 1)), max_size=k, unique=True))
    miss = [list(c) for c in cells]
  if mode == 3 and n_g >= 2:
    g = draw(st.integers(0, n_g - 1))
    miss = [m for m in miss if m[0] != g] + [[g, d] for d in range(n_d)]      # a geo absent from the data
  panel['missing'] = miss
  panel['missing_as_nan'] = draw(st.booleans())
  elig = draw(G.eligibility_spec(panel['ids']))
  if draw(st.integers(0, 11)) == 0:
    # a table keyed differently from the data ('01' vs 1): no geo in common, every row excludable
    elig = {'rows': [['x' + g] + list(draw(st.sampled_from([(1, 1, 1), (1, 0, 1), (0, 1, 1), (0, 0, 1)]))) for g in panel['ids']],
            'as_index': draw(st.booleans()), 'style': 'disjoint', 'col_order': None, 'row_labels': None}
  return {'panel': panel, 'elig': elig, 'params': {'iroas': 1.0, 'n_designs': 1},
          'index': {'order_seed': draw(st.integers(0, 10 ** 6)), 'k': draw(st.integers(1, 7)), 'bad': draw(st.integers(0, 5)) == 0, 'twice': draw(st.booleans()),
                    'shared_elig': draw(st.integers(0, 2)) == 0},
          'sets': draw(st.lists(st.lists(st.integers(0, 6), min_size=1, max_size=5), min_size=1, max_size=4))}


def strategy(tier):
  return _spec()


def run(spec):
  from matched_markets.methodology import geoeligibility, tbrmmdata
  from vmm import core
  viol = []
  cls = []
  panel = spec['panel']
  df = L.build_frame(panel)
  if len(df) == 0:
    return {'viol': [], 'nt': False, 'cls': ['empty-frame'], 'dc': 1}
  rows = None if spec['elig'] is None else spec['elig']['rows']
  sp = L.Space(df, rows, {'n_test': 1, 'iroas': 1.0}, panel['resp_col'])
  elig_df = L.build_elig_frame(spec['elig'], None, bool(panel['id_int']))
  det = {'geos': sp.geos, 'dates': len(sp.dates), 'missing_cells': len(panel['missing']),
         'elig': None if rows is None else {str(r[0]): ''.join(map(str, r[1:])) for r in rows}}
  before = df.copy(deep=True)
  elig_before = None if elig_df is None else elig_df.copy(deep=True)
  try:
    ge = geoeligibility.GeoEligibility(elig_df) if elig_df is not None else None
    if ge is not None and spec['index'].get('shared_elig') and len(sp.geos) >= 2:
      # the same eligibility object was first used with another panel (fewer geos, other volume ranking)
      ids_other = set(sp.geos[1:])
      other = before[before['geo'].astype(str).isin(ids_other)].copy()
      other[panel['resp_col']] = other[panel['resp_col']].to_numpy()[::-1].copy()
      try:
        d0 = tbrmmdata.TBRMMData(other, panel['resp_col'], ge)
        d0.geo_index = sorted(d0.assignable)[:3]
      except ValueError:
        pass
      cls.append('shared-eligibility-object')
    data = tbrmmdata.TBRMMData(df, panel['resp_col'], ge)
    built = 'ok'
  except ValueError as e:
    built = 'ValueError'
    msg = str(e)[:150]
  except Exception as e:  # pylint: disable=broad-except
    return {'viol': [(core.crash_kind('C15', e), dict(det, exc=str(e)[:200]))], 'nt': True, 'cls': ['crash'], 'dc': 0}
  table_geos = set() if rows is None else {str(r[0]) for r in rows}
  rel = 'none' if rows is None else ('equal' if table_geos == set(sp.geos) else 'subset' if table_geos < set(sp.geos)
                                     else 'superset' if table_geos > set(sp.geos) else 'overlap')
  cls.append('table:' + rel)
  if sp.reject:
    cls.append('non-excludable-geo-absent')
    if built != 'ValueError':
      viol.append(('C15:missing-required-geo-accepted', det))
    return {'viol': viol, 'nt': len(sp.geos) >= 2, 'cls': cls, 'dc': 0}
  if built == 'ValueError':
    viol.append(('C15:valid-input-rejected', dict(det, msg=msg)))
    return {'viol': viol, 'nt': True, 'cls': cls, 'dc': 0}
  try:
    if not df.equals(before):
      viol.append(('C15:caller-frame-modified', det))
    d = data.df
    ids = [g for g in d.index]
    if not all(isinstance(g, str) for g in ids) or sorted(ids) != sp.geos or len(ids) != len(set(ids)):
      viol.append(('C15:rows', dict(det, got=[repr(g) for g in ids])))
    elif [c for c in d.columns] != sp.dates:
      viol.append(('C15:columns-not-chronological', dict(det, got=[str(c)[:10] for c in d.columns][:5])))
    else:
      for g in ids:
        if not util.deep_eq(d.loc[g].to_numpy().astype(float), sp.M[g], 0, 0):
          viol.append(('C15:cell-values', dict(det, geo=g)))
          break
      means = [sp.mean[g] for g in ids]
      if any(means[i] < means[i + 1] * (1 - 1e-12) for i in range(len(means) - 1)):
        viol.append(('C15:rows-not-by-decreasing-mean', dict(det, order=ids, means=means)))
      gs = data.geo_share
      if sorted(gs.index) != sp.geos or not all(util.close(gs[g], sp.share[g], 1e-12) for g in sp.geos):
        viol.append(('C15:geo-share', dict(det, got={g: float(gs[g]) for g in gs.index}, want=sp.share)))
    if set(data.geos_in_data) != set(sp.geos):
      viol.append(('C15:geos_in_data', det))
    if set(data.assignable) != sp.assignable:
      viol.append(('C15:assignable', dict(det, got=sorted(data.assignable), want=sorted(sp.assignable))))
    if set(data.geo_eligibility.data.index) != set(sp.elig):
      viol.append(('C15:retained-eligibility-rows', dict(det, got=sorted(data.geo_eligibility.data.index), want=sorted(sp.elig))))
    else:
      for g, r in sp.elig.items():
        if tuple(int(v) for v in data.geo_eligibility.data.loc[g][['control', 'treatment', 'exclude']]) != r:
          viol.append(('C15:retained-eligibility-values', dict(det, geo=g)))
          break
    # geo index
    pool = sorted(sp.assignable)
    if pool and not viol:
      rs = np.random.RandomState(spec['index']['order_seed'])
      Lst = [pool[i] for i in rs.permutation(len(pool))][:spec['index']['k']]
      bad_pool = sorted(set(sp.geos) - sp.assignable)
      if spec['index']['bad'] and bad_pool:
        data2 = tbrmmdata.TBRMMData(before.copy(), panel['resp_col'], geoeligibility.GeoEligibility(elig_df) if elig_df is not None else None)
        try:
          data2.geo_index = Lst + [bad_pool[0]]
          viol.append(('C15:unassignable-geo-accepted-in-index', dict(det, index=Lst + [bad_pool[0]])))
        except ValueError:
          cls.append('unassignable-geo-rejected')
      if spec['index'].get('twice') and len(pool) >= 1:
        # the index is first set to another (reversed, longer/shorter) list and used, then to the list under test
        L0 = list(reversed(pool))[:max(1, spec['index']['k'] - 1)]
        data.geo_index = list(L0)
        data.aggregate_time_series({0})
        data.aggregate_geo_share({0})
        cls.append('index-set-twice')
      data.geo_index = list(Lst)
      a = data.geo_assignments
      want = {}
      for i, g in enumerate(Lst):
        want.setdefault(CLASS_OF[sp.elig[g]], set()).add(i)
      for k in CLASS_OF.values():
        if set(getattr(a, k)) != want.get(k, set()):
          viol.append(('C15:geo-assignments', dict(det, index=Lst, cls=k, got=sorted(getattr(a, k)), want=sorted(want.get(k, set())))))
          break
      if set(a.all) != set(range(len(Lst))):
        viol.append(('C15:geo-assignments-all', dict(det, index=Lst)))
      for s in spec['sets']:
        S = sorted({i % len(Lst) for i in s})
        ts = np.asarray(data.aggregate_time_series(set(S)), float)
        ws = sum(sp.M[Lst[i]] for i in S)
        sh = float(data.aggregate_geo_share(set(S)))
        wsh = sum(sp.share[Lst[i]] for i in S)
        if not util.deep_eq(ts, ws, 1e-12):
          viol.append(('C15:aggregate-time-series', dict(det, index=Lst, S=S)))
        if not util.close(sh, wsh, 1e-12):
          viol.append(('C15:aggregate-geo-share', dict(det, index=Lst, S=S, got=sh, want=wsh)))
      order_in_df = [g for g in data.df.index if g in Lst]
      if order_in_df != Lst:
        cls.append('index-order!=row-order')
  except Exception as e:  # pylint: disable=broad-except
    viol.append((core.crash_kind('C15', e), dict(det, exc=str(e)[:200])))
  if panel['missing']:
    cls.append('missing-cells')
  nt = len(sp.geos) >= 2 and (bool(panel['missing']) or rel not in ('none', 'equal') or 'index-order!=row-order' in cls)
  return {'viol': viol[:4], 'nt': nt, 'cls': cls, 'dc': 0}
