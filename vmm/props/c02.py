"""C02 - every returned design satisfies every user-specified numeric constraint."""
from hypothesis import strategies as st

from vmm.gen import search as G
from vmm.ref import searchlib as L

ID = 'C02'
RULE = ('Hypothesis panel x eligibility x parameters with every constraint specified w.p. ~0.55, data-aware share/budget ranges '
        '(midpoints between attainable values), dyadic geo-ratio tolerances so designs sit exactly on the ratio bound, size '
        'ranges whose ends equal attainable sizes; both searches; every returned design re-measured from the raw frame '
        '(sizes and geo ratio exactly as Fractions, volume ratio, treatment share under both documented readings, budget '
        'recomputed by the closed form). Non-trivial = >=1 design returned and >=1 specified constraint is binding (some legal '
        'design over the admitted geos violates it); distinct by spec hash.')
BUDGET = {'quick': 640, 'thorough': 16000}
FLOOR = {'quick': 60, 'thorough': 1500}
ROUNDS = {'quick': 2, 'thorough': 4}
ASSUMPTIONS = ['real-valued bounds compared with relative slack 1e-9 (band = accepted)', 'unspecified constraint: nothing asserted']


def strategy(tier):
  big = 6 if tier == 'quick' else 8
  return st.one_of(G.search_spec(max_geos=big, min_geos=2, constraint_p=0.55),
                   G.search_spec(max_geos=big, min_geos=3, constraint_p=0.5, elig_style='fixed-heavy', tight_sizes=True, allow_budget=False),
                   G.search_spec(max_geos=big, min_geos=3, constraint_p=0.5, elig_style='all-treatment', tight_sizes=True, allow_budget=False),
                   G.search_spec(max_geos=big, min_geos=3, constraint_p=0.55, elig_style='none'),
                   G.search_spec(max_geos=big, min_geos=3, constraint_p=0.45, elig_style='mixed'),
                   _share_squeeze(big))


@st.composite
def _share_squeeze(draw, big):
  """Flavour for the treatment-share clause: one large geo that may not be assigned at all, one large assignable geo that
  is too large for the range, and a range placed between the shares a small group has against all geos / assignable
  geos / admitted geos."""
  spec = draw(G.search_spec(max_geos=big, min_geos=5, constraint_p=0.1, allow_budget=False, allow_share=False, elig_style='free'))
  panel, params = spec['panel'], spec['params']
  n = len(panel['ids'])
  panel['level'] = [32, 32] + [draw(st.sampled_from([2, 4, 4, 8])) for _ in range(n - 2)]
  panel['early'] = [1] * n
  panel['flat'] = []
  rows = [[panel['ids'][0], 0, 0, 1]] + [[g, 1, 1, 1] for g in panel['ids'][1:]]
  spec['elig'] = dict(spec['elig'] or {'as_index': False, 'col_order': None, 'row_labels': None}, rows=rows, style='share-squeeze')
  params['share_squeeze'] = True
  params['share_q'] = None
  params['n_geos_max'] = None
  params['treatment_geos_range'] = draw(st.sampled_from([[2, 3], [2, 2], [1, 3], None]))
  spec['history'] = None
  return spec


def check_design(sp, T, C, gwc=None):
  """-> list of violated constraint names (band = accepted)."""
  bad = []
  if sp.check_sizes(T, C) == 'out':
    bad.append('size-range')
  if sp.check_geo_ratio(T, C) == 'out':
    bad.append('geo-ratio')
  if sp.check_volume(T, C) == 'out':
    bad.append('volume-ratio')
  rd = sp.share_readings(T)
  ok = rd['all'] != 'out' or rd['admitted'] != 'out'
  if not ok and gwc is not None:
    ok = sp.share_readings(T, gwc)['admitted'] != 'out'
  if not ok:
    bad.append('treatment-share')
  st_, b = sp.check_budget(T, C)
  if st_ == 'out':
    bad.append('budget')
  return bad, b


def binding(sp):
  """Names of specified constraints violated by at least one legal design over the admitted geos."""
  out = set()
  par = sp.par
  want = set()
  if par.treatment_geos_range is not None or par.control_geos_range is not None:
    want.add('size-range')
  if par.geo_ratio_tolerance is not None:
    want.add('geo-ratio')
  if par.volume_ratio_tolerance is not None:
    want.add('volume-ratio')
  if par.treatment_share_range is not None:
    want.add('treatment-share')
  if par.budget_range is not None:
    want.add('budget')
  if not want:
    return out
  for T, C in sp.legal_designs(cap=3000):
    if 'size-range' in want and sp.check_sizes(T, C) == 'out':
      out.add('size-range')
    if 'geo-ratio' in want and sp.check_geo_ratio(T, C) == 'out':
      out.add('geo-ratio')
    if 'volume-ratio' in want and sp.check_volume(T, C) == 'out':
      out.add('volume-ratio')
    if 'treatment-share' in want and sp.share_readings(T)['all'] == 'out':
      out.add('treatment-share')
    if 'budget' in want and 'budget' not in out and sp.check_budget(T, C)[0] == 'out':
      out.add('budget')
    if out == want:
      break
  return out


def run(spec):
  case = L.materialise(spec)
  sp = case.space
  viol = []
  cls = ['history:%s' % spec.get('history'), 'geos:%d' % len(sp.geos)]
  det = L.describe(case)
  n_designs = 0
  dc = 0
  for method in ('exhaustive_search', 'greedy_search'):
    res = L.run_search(case, method, history=spec.get('history'))
    tag = method.split('_')[0]
    if res[0] != 'ok':
      cls.append('%s:%s' % (tag, res[0]))
      continue
    recs, mm = res[1], res[2]
    cls.append('%s:%s' % (tag, 'designs' if recs else 'empty'))
    n_designs += len(recs)
    try:
      gwc = {str(g) for g in mm.geos_within_constraints}
    except Exception:  # pylint: disable=broad-except
      gwc = None
    for pos, r in enumerate(recs):
      if not r['T'] or not r['C'] or not (r['T'] | r['C']) <= set(sp.geos):
        continue   # C01's business
      bad, b = check_design(sp, r['T'], r['C'], gwc)
      for name in bad:
        viol.append(('C02:%s:%s' % (tag, name), dict(det, T=sorted(r['T']), C=sorted(r['C']), pos=pos, budget=b,
                                                    share_T=sum(sp.share[g] for g in r['T']), reported_impact=r.get('required_impact'))))
  bind = set()
  if n_designs and not sp.reject:
    bind = binding(sp)
    cls += ['binding:' + b for b in sorted(bind)]
  for k in ('treatment_share_range', 'budget_range'):
    if k in case.kwargs:
      cls.append('has:' + k)
  nt = n_designs >= 1 and bool(bind)
  return {'viol': viol[:4], 'nt': nt, 'cls': cls, 'dc': dc}
