"""C04 - diagnostics and score attached to a design belong to its reported geos."""
import numpy as np
from hypothesis import strategies as st

from vmm import util
from vmm.gen import search as G
from vmm.ref import diag as R
from vmm.ref import searchlib as L

ID = 'C04'
RULE = ('Hypothesis panel x eligibility x parameters with n_pretest_max < #dates in about half of the cases, several designs '
        'kept (n_designs >= 3 mostly), exclusions active (share/budget/n_geos_max/x_fixed so that geo index != rank in the '
        'frame); both searches, every position of the result list. Series re-aggregated from the raw frame by geo ID; every '
        'diagnostic and the score tuple recomputed by an independent implementation (R5). Non-trivial = >=2 designs returned '
        'by some search and (admitted set != all geos in data or window shorter than the frame); distinct by spec hash.')
BUDGET = {'quick': 480, 'thorough': 8000}
FLOOR = {'quick': 40, 'thorough': 800}
ROUNDS = {'quick': 2, 'thorough': 4}
ASSUMPTIONS = ['discrete outcomes whose statistic lies within 1e-9 (relative) of its threshold are not asserted (counted as dont-care)',
               'the A/A false-positive probability formula is a pinned-behaviour model (no independent specification exists)']


@st.composite
def _spec(draw, big):
  spec = draw(st.one_of(G.search_spec(max_geos=big, min_geos=4, constraint_p=0.2, max_dates=30).map(G.shared_capped),
                        G.search_spec(max_geos=big, min_geos=3, constraint_p=0.3, max_dates=40),
                        G.search_spec(max_geos=big, min_geos=3, constraint_p=0.3, elig_style='mixed', max_dates=40)))
  p = spec['params']
  if draw(st.integers(0, 3)) > 0:
    p['n_designs'] = draw(st.sampled_from([3, 5, 10, 50]))
  nt, nd = spec['panel']['n_test'], spec['panel']['n_dates']
  if draw(st.booleans()) and nd > nt + 3:
    p['n_pretest_max'] = draw(st.integers(nt + 3, nd - 1))
  if draw(st.integers(0, 7)) == 0 and len(spec['panel']['ids']) <= 4:
    # a long history analysed over a window beyond the default of 90 points
    nd2 = draw(st.integers(100, 170))
    pn = spec['panel']
    pn['factor'] = [pn['factor'][i % nd] + ((3 * i) % 5) - 2 for i in range(nd2)]
    pn['noise'] = [[(row[i % nd] * (1 + i // nd) + 17 * i) % 1021 - 510 for i in range(nd2)] for row in pn['noise']]
    pn['n_dates'] = nd2
    pn['flat'], pn['missing'] = [], []
    p['n_pretest_max'] = draw(st.integers(91, nd2 + 10))
  return spec


def strategy(tier):
  return _spec(6 if tier == 'quick' else 8)


def lib_view(diag):
  fit = diag.pretestfit
  return {'x': np.asarray(diag.x, float), 'y': np.asarray(diag.y, float), 'corr': diag.corr,
          'required_impact': diag.required_impact, 'fit': None if fit is None else (fit.a, fit.b, fit.sigma),
          'aa': diag.aatest.test_ok, 'bb': diag.bbtest.test_ok, 'dw': diag.dwtest.test_ok, 'corr_test': diag.corr_test,
          'tests_ok': diag.tests_ok}


def check_design(sp, r, budget_max, tag, pos, det, params_changed=False):
  """-> (violations, dontcare)."""
  viol = []
  dc = 0
  d = r['raw']
  T, C = r['T'], r['C']
  if not T or not C or not (T | C) <= set(sp.geos):
    return viol, dc
  info = dict(det, T=sorted(T), C=sorted(C), pos=pos)
  y = sp.series(T)
  x = sp.series(C)
  try:
    v = lib_view(d.diag)
    vs = lib_view(d.score.diag)
  except Exception as e:  # pylint: disable=broad-except
    from vmm import core
    return [(core.crash_kind('C04', e), dict(info, exc=str(e)[:200]))], dc
  if not util.deep_eq(v['y'], y, 1e-9) or not util.deep_eq(v['x'], x, 1e-9):
    viol.append(('C04:%s:series-not-of-reported-geos' % tag, dict(info, len_lib=len(v['y']), len_want=len(y))))
    return viol, dc
  ref = R.diagnostics(x, y, sp.par)
  cond = 2e-15 / max(1e-300, 1 - ref['corr'] ** 2) if ref['corr'] == ref['corr'] else 0
  if not util.close(v['corr'], ref['corr'], 1e-9):
    viol.append(('C04:%s:corr' % tag, dict(info, lib=float(v['corr']), ref=ref['corr'])))
  if ref['required_impact'] is not None and not util.close(v['required_impact'], ref['required_impact'], 1e-9 + cond):
    viol.append(('C04:%s:required-impact' % tag, dict(info, lib=float(v['required_impact']), ref=ref['required_impact'])))
  if ref['fit'] is not None and v['fit'] is not None:
    a, b, s = ref['fit']
    scale_y = float(np.max(np.abs(y))) + 1e-300
    if not (util.close(v['fit'][1], b, 1e-7, 1e-9) and util.close(v['fit'][0], a, 1e-7, 1e-7 * scale_y) and util.close(v['fit'][2], s, 1e-6, 1e-9 * scale_y)):
      viol.append(('C04:%s:pretestfit' % tag, dict(info, lib=[float(t) for t in v['fit']], ref=[a, b, s])))
  for name, key in (('corr_test', 'corr_test'), ('aa', 'aa'), ('bb', 'bb'), ('dw', 'dw')):
    if key in ref['fragile'] or ref[key] in (None, 'nofit'):
      dc += 1
      continue
    if bool(v[name]) != bool(ref[key]):
      viol.append(('C04:%s:test-outcome:%s' % (tag, name), dict(info, lib=bool(v[name]), ref=ref[key], dw=ref.get('dwstat'), aa_prob=ref.get('aa_prob'))))
  if not R.score_fragile(ref) and ref['aa'] not in (None, 'nofit'):
    want_ok = bool(ref['corr_test'] and ref['bb'] and ref['dw'] and ref['aa'])
    if bool(v['tests_ok']) != want_ok:
      viol.append(('C04:%s:tests_ok' % tag, dict(info, lib=util.summarize(v['tests_ok']), ref=want_ok)))
    want = R.score_tuple(ref, budget_max)
    got = r['score']
    if want is not None:
      ok = tuple(got[:4]) == tuple(want[:4]) and util.close(got[4], want[4], 0, 1e-12) and util.close(got[5], want[5], 1e-9 + cond)
      if not ok:
        viol.append(('C04:%s:score' % tag, dict(info, lib=[float(t) for t in got], ref=list(want))))
  else:
    dc += 1
  # design.score.diag and design.diag report the same numbers
  # (when the caller has changed its parameter object after the search, the score's diagnostics object of the greedy
  # search - which is not a copy - legitimately evaluates its lazy tests with the live parameters: only the cached
  # numbers are compared then; the statement speaks of the diagnostics held by the design)
  same = all(util.deep_eq(v[k], vs[k], 1e-12) for k in ('x', 'y', 'corr', 'required_impact')) and \
      (params_changed or all(bool(v[k]) == bool(vs[k]) for k in ('aa', 'bb', 'dw', 'corr_test')))
  if not same:
    viol.append(('C04:%s:score-diag-differs-from-design-diag' % tag, info))
  return viol, dc


def run(spec):
  case = L.materialise(spec)
  sp = case.space
  viol = []
  dc = 0
  cls = ['history:%s' % spec.get('history'), 'geos:%d' % len(sp.geos)]
  det = L.describe(case)
  most = 0
  for method in ('exhaustive_search', 'greedy_search'):
    res = L.run_search(case, method, history=spec.get('history'))
    tag = method.split('_')[0]
    if res[0] != 'ok':
      cls.append('%s:%s' % (tag, res[0]))
      continue
    recs = res[1]
    changed = False
    if spec['params'].get('iroas') == 3 or spec['panel']['perm_seed'] % 2:
      # flavour: the caller changes its parameter object after the search and only then reads the designs' diagnostics
      # (lazy tests must still be those of the parameters the search ran with)
      try:
        par_live = res[2].parameters
        par_live.min_corr = 0.999
        par_live.sig_level = 0.51
        changed = True
        cls.append('params-changed-after-search')
      except Exception:  # pylint: disable=broad-except
        pass
    most = max(most, len(recs))
    cls.append('%s:%s' % (tag, '0' if not recs else '1' if len(recs) == 1 else '2+'))
    bmax = case.kwargs['budget_range'][1] if (tag == 'exhaustive' and 'budget_range' in case.kwargs) else None
    for pos, r in enumerate(recs):
      v, d = check_design(sp, r, bmax, tag, pos, det, changed)
      viol += v
      dc += d
  if sp.n_win < len(sp.dates):
    cls.append('window-shorter-than-frame')
  if not sp.reject and sp.adm != set(sp.geos):
    cls.append('admitted!=all')
  nt = most >= 2 and (sp.n_win < len(sp.dates) or (not sp.reject and sp.adm != set(sp.geos)))
  return {'viol': viol[:4], 'nt': nt, 'cls': cls, 'dc': dc}
