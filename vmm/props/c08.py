"""C08 - design diagnostics never serve stale values after their inputs change (histories).

RuleBasedStateMachine over one TBRMMDiagnostics object; oracle = a fresh object built from the model's
current (y, x, parameters) after every read and at teardown.
"""
import numpy as np
from hypothesis import strategies as st
from hypothesis.stateful import RuleBasedStateMachine, initialize, rule

from vmm import util

ID = 'C08'
RULE = ('RuleBasedStateMachine histories over {set x(i), set y(i) (clears x) - from the pool (float64; x also as int64 / list of ints / float32) or from a work buffer the caller overwrites right after the assignment -, clear x, read q} on one TBRMMDiagnostics '
        'built from a drawn parameter object and a pool of 6 series (two highly correlated, one noise, one trending, one '
        'with a level shift in the last n_test points, one constant); q in {corr, required_impact, pretestfit, bbtest, '
        'dwtest, aatest, corr_test, tests_ok, tbrfit, x, y}; every read is compared with the same read on a fresh object '
        'holding the same current series; a second diagnostics object with its own series lives alongside and is assigned / read in between (its answers are checked the same way); teardown re-reads every quantity. Non-trivial = history with read(q), then a '
        'write, then read(q) again for a cached q; distinct by spec hash (pool + op sequence).')
BUDGET = {'quick': 1920, 'thorough': 16000}
FLOOR = {'quick': 150, 'thorough': 3000}
STEPS = {'quick': 30, 'thorough': 60}
ASSUMPTIONS = ['same code on both sides: a defect that affects fresh objects too is invisible here (C04/C05 cover values)',
               'length-mismatch errors (contract-defined) are not generated']

QUANTS = ['corr', 'required_impact', 'pretestfit', 'bbtest', 'dwtest', 'aatest', 'corr_test', 'tests_ok', 'x', 'y']
CACHED = {'corr', 'required_impact', 'pretestfit', 'bbtest', 'dwtest', 'aatest', 'tests_ok'}


def make_pool(n, n_test, factor, noise):
  f = 100.0 + np.cumsum(np.asarray(factor, float))
  e = np.asarray(noise, float)
  t = np.arange(n, dtype=float)
  pool = [
      2 * f + e[0] / 16.0 + (3 * t % 7) / 8.0,
      3 * f + e[1] / 16.0 + (5 * t % 11) / 8.0,
      50 + e[2] / 2.0 + (7 * t % 5) / 4.0,
      10 + 4 * t + e[3] / 8.0,
      2 * f + e[4] / 16.0 + (2 * t % 9) / 8.0,
      np.full(n, 42.0),
  ]
  shift = np.zeros(n)
  shift[max(0, n - n_test):] = 60.0
  pool[4] = pool[4] + shift
  pool = [np.round(p * 64) / 64 for p in pool]
  # two near-duplicates of series 0 / 2 (relative difference ~5e-6 and exactly 2^-10): a different series, however close
  pool.append(pool[0] + (np.arange(n) % 2) / 1024.0)
  pool.append(pool[2] * (1 + 2.0 ** -18))
  return pool


class Runner:

  def __init__(self, spec):
    from matched_markets.methodology import tbrmmdesignparameters, tbrmmdiagnostics
    self.D = tbrmmdiagnostics.TBRMMDiagnostics
    self.spec = dict(spec, ops=[])
    self.n = spec['n']
    self.par = tbrmmdesignparameters.TBRMMDesignParameters(**spec['params'])
    n2 = spec.get('n2', self.n)
    self.pools = [make_pool(self.n, spec['params']['n_test'], spec['factor'], spec['noise']),
                  make_pool(n2, spec['params']['n_test'], spec['factor'][:n2], [e[:n2] for e in spec['noise']])]
    self.which = 0
    self.pool = self.pools[0]
    self.yi = spec['y0']
    self.xi = None
    self.real = self.D(self.pool[self.yi], self.par)
    # a second, independent diagnostics object alive at the same time (own series, own parameter object)
    self.oyi, self.oxi = (spec['y0'] + 1) % 5, (spec['y0'] + 2) % 5
    self.other = self.D(self.pools[0][self.oyi], tbrmmdesignparameters.TBRMMDesignParameters(**spec['params']))
    self.other.x = self.pools[0][self.oxi]
    self.other_used = False
    self.buffers = False
    self.typed = False
    self.xval = None
    self.viol = []
    self.read_before_write = set()
    self.written_after = set()
    self.nt = False
    self.reads = 0
    self.writes = 0

  def fresh(self):
    from matched_markets.methodology import tbrmmdesignparameters
    par = tbrmmdesignparameters.TBRMMDesignParameters(**self.spec['params'])
    d = self.D(self.pool[self.yi].copy(), par)
    if self.xi is not None:
      d.x = self.pool[self.xi].copy() if getattr(self, 'xval', None) is None else self.xval.copy()
    return d

  @staticmethod
  def _get(d, q, args=None):
    try:
      if q == 'tbrfit':
        return ('ok', d.tbrfit(*args))
      if q == 'estimate_required_impact':
        return ('ok', d.estimate_required_impact(*args))
      return ('ok', getattr(d, q))
    except Exception as e:  # pylint: disable=broad-except
      return ('exc', type(e).__name__)

  def _check(self, q, args=None, where='read'):
    got = self._get(self.real, q, args)
    want = self._get(self.fresh(), q, args)
    same = got[0] == want[0] and (util.deep_eq(tuple(got[1]) if isinstance(got[1], tuple) else got[1],
                                               tuple(want[1]) if isinstance(want[1], tuple) else want[1])
                                  if got[0] == 'ok' else got[1] == want[1])
    if not same:
      self.viol.append(('C08:stale:%s' % q, {'where': where, 'step': len(self.spec['ops']), 'x': self.xi, 'y': self.yi,
                                             'got': util.summarize(got[1]) if got[0] == 'ok' else got[1],
                                             'fresh': util.summarize(want[1]) if want[0] == 'ok' else want[1]}))

  def step(self, op):
    self.spec['ops'].append(op)
    kind = op[0]
    if kind == 'set_x' and len(op) > 2 and op[2] in ('int64', 'float32', 'int-list'):
      # the same series in another container / dtype: whole numbers as int64 or as a list of ints, or single precision
      self.xi = op[1]
      base = self.pool[self.xi]
      val = np.round(base).astype(np.int64) if op[2] == 'int64' else ([int(v) for v in np.round(base)] if op[2] == 'int-list' else base.astype(np.float32))
      self.xval = np.array(val)
      self.real.x = val
      self.typed = True
      self._wrote()
    elif kind == 'set_x':
      self.xi = op[1]
      self.xval = None
      if len(op) > 2 and op[2] == 'buf':
        # the caller hands over a work buffer and overwrites it afterwards: the object keeps the values it was given
        buf = self.pool[self.xi].copy()
        self.real.x = buf
        buf *= 3.0
        buf[::2] = -1.0
        self.buffers = True
      else:
        self.real.x = self.pool[self.xi]
      self._wrote()
    elif kind == 'set_y':
      self.yi = op[1]
      self.xi = None
      self.xval = None
      self.which = op[2] if len(op) > 2 else 0
      self.pool = self.pools[self.which]
      if len(op) > 3 and op[3] == 'buf':
        buf = self.pool[self.yi].copy()
        self.real.y = buf
        buf[:] = buf[::-1] * 0.5
        self.buffers = True
      else:
        self.real.y = self.pool[self.yi]
      self._wrote()
    elif kind in ('bad_x', 'bad_y'):
      # an assignment the contract rejects (wrong length / fewer than 3 points): ValueError, object state unchanged
      try:
        if kind == 'bad_x':
          self.real.x = np.arange(len(self.pool[self.yi]) + 1 + op[1], dtype=float) * 3.0 + 7.0
        else:
          self.real.y = np.array([5.0, 9.0][:op[1] % 3])
        self.viol.append(('C08:invalid-assignment-accepted', {'op': op}))
      except ValueError:
        pass
      except Exception as e:  # pylint: disable=broad-except
        self.viol.append(('C08:invalid-assignment-wrong-exception', {'op': op, 'exc': type(e).__name__}))
      self._wrote()
    elif kind == 'clear_x':
      self.xi = None
      self.xval = None
      self.real.x = None
      self._wrote()
    elif kind == 'other':
      # the bystander object is re-assigned and / or read; its answers are checked like those of the main object
      self.other_used = True
      if op[1] == 'set_x':
        self.oxi = op[2] % 5
        self.other.x = self.pools[0][self.oxi]
      elif op[1] == 'set_y':
        self.oyi, self.oxi = op[2] % 5, None
        self.other.y = self.pools[0][self.oyi]
      else:
        got = self._get(self.other, op[1])
        from matched_markets.methodology import tbrmmdesignparameters
        f = self.D(self.pools[0][self.oyi].copy(), tbrmmdesignparameters.TBRMMDesignParameters(**self.spec['params']))
        if self.oxi is not None:
          f.x = self.pools[0][self.oxi].copy()
        want = self._get(f, op[1])
        ok = got[0] == want[0] and (util.deep_eq(got[1], want[1]) if got[0] == 'ok' else got[1] == want[1])
        if not ok:
          self.viol.append(('C08:second-object:%s' % op[1], {'step': len(self.spec['ops']), 'x': self.oxi, 'y': self.oyi,
                                                             'got': util.summarize(got[1]) if got[0] == 'ok' else got[1],
                                                             'fresh': util.summarize(want[1]) if want[0] == 'ok' else want[1]}))
        # ... and read once more with nothing constructed in between, right before the next op on the main object
        self._get(self.other, op[1])
    elif kind == 'read':
      q = op[1]
      self.reads += 1
      if q in CACHED:
        if q in self.written_after:
          self.nt = True
        self.read_before_write.add(q)
      self._check(q)
    elif kind == 'tbrfit':
      self.reads += 1
      self._check('tbrfit', (op[1] / 4.0, op[2] / 4.0))
    elif kind == 'estimate':
      self.reads += 1
      if 'required_impact' in self.written_after or 'estimate' in self.written_after:
        self.nt = True
      self.read_before_write.add('estimate')
      self._check('estimate_required_impact', (op[1] / 1000.0,))

  def _wrote(self):
    self.writes += 1
    self.written_after |= self.read_before_write

  def finish(self):
    for q in QUANTS:
      self._check(q, where='teardown')
    self._check('tbrfit', (100.0, 200.0), where='teardown')
    self._check('estimate_required_impact', (0.9,), where='teardown')
    # the caller's series were handed over without copying: they must not have been modified
    n2 = self.spec.get('n2', self.n)
    clean = [make_pool(self.n, self.spec['params']['n_test'], self.spec['factor'], self.spec['noise']),
             make_pool(n2, self.spec['params']['n_test'], self.spec['factor'][:n2], [e[:n2] for e in self.spec['noise']])]
    for a, b in zip(self.pools, clean):
      if not all(np.array_equal(x, y) for x, y in zip(a, b)):
        self.viol.append(('C08:caller-series-modified', {'step': len(self.spec['ops'])}))
        break

  def outcome(self):
    cls = ['reads:%s' % ('0' if not self.reads else '1-5' if self.reads <= 5 else '>5'),
           'writes:%s' % ('0' if not self.writes else '1-3' if self.writes <= 3 else '>3')]
    if self.nt:
      cls.append('read-write-read')
    if self.other_used:
      cls.append('second-live-object')
    if self.buffers:
      cls.append('caller-overwrote-its-buffer')
    if self.typed:
      cls.append('int-or-float32-series')
    if self.n - self.spec['params']['n_test'] < 3:
      cls.append('aatest-undefined')
    if self.spec.get('n2', self.n) != self.n and any(o[0] == 'set_y' and len(o) > 2 and o[2] == 1 for o in self.spec['ops']):
      cls.append('length-changed')
    return {'viol': list(self.viol[:3]), 'nt': self.nt, 'cls': cls, 'dc': 0}


def run(spec):
  r = Runner(spec)
  for op in spec['ops']:
    r.step(list(op))
  r.finish()
  return r.outcome()


@st.composite
def _init_spec(draw):
  n_test = draw(st.integers(1, 8))
  n = draw(st.one_of(st.integers(3, 12), st.integers(n_test + 3, 40), st.integers(n_test + 3, 40), st.integers(n_test + 3, 24)))
  params = {'n_test': n_test, 'iroas': 1.0,
            'sig_level': draw(st.sampled_from([0.9, 0.8, 0.95, 0.6])),
            'power_level': draw(st.sampled_from([0.8, 0.5, 0.9])),
            'min_corr': draw(st.sampled_from([0.8, 0.9, 0.95])),
            'flevel': draw(st.sampled_from([0.9, 0.95]))}
  factor = draw(st.lists(st.integers(-6, 6), min_size=n, max_size=n))
  noise = [draw(st.lists(st.integers(-64, 64), min_size=n, max_size=n)) for _ in range(5)]
  n2 = draw(st.integers(3, n)) if draw(st.booleans()) else n
  return {'n': n, 'n2': n2, 'params': params, 'factor': factor, 'noise': noise, 'y0': draw(st.integers(0, 4))}


def machine(tier, sink):

  class DiagMachine(RuleBasedStateMachine):

    def __init__(self):
      super().__init__()
      self.r = None
      self.done = False
      from vmm import core
      core.arm()

    @initialize(spec=_init_spec())
    def init(self, spec):
      self.r = Runner(spec)

    def _after(self):
      if self.r.viol and not self.done:
        self.done = True
        sink(self.r.spec, self.r.outcome())

    @rule(i=st.sampled_from([0, 1, 2, 3, 4, 5, 6, 7, 0, 6, 2, 7]))
    def set_x(self, i):
      self.r.step(['set_x', i])

    @rule(i=st.integers(0, 4), which=st.integers(0, 1))
    def set_y(self, i, which):
      self.r.step(['set_y', i, which])

    @rule(i=st.sampled_from([0, 1, 2, 3, 4, 6, 7]), kind=st.sampled_from(['int64', 'float32', 'int-list']), then=st.sampled_from([None, 0, 1, 2, 3, 4]))
    def set_x_other_dtype(self, i, kind, then):
      self.r.step(['set_x', i, kind])
      if then is not None:
        self.r.step(['set_x', then])          # ... followed at once by an ordinary float64 series
        self.r.step(['read', 'corr'])
        self._after()

    @rule(i=st.sampled_from([0, 1, 2, 3, 4, 6, 7]))
    def set_x_from_buffer(self, i):
      self.r.step(['set_x', i, 'buf'])

    @rule(i=st.integers(0, 4), which=st.integers(0, 1))
    def set_y_from_buffer(self, i, which):
      self.r.step(['set_y', i, which, 'buf'])

    @rule(rho=st.sampled_from([0, 500, 900, 995, -900]))
    def estimate(self, rho):
      self.r.step(['estimate', rho])
      self._after()

    @rule()
    def clear_x(self):
      self.r.step(['clear_x'])

    @rule(kind=st.sampled_from(['bad_x', 'bad_y']), k=st.integers(0, 3))
    def rejected_assignment(self, kind, k):
      self.r.step([kind, k])
      self._after()

    @rule(q=st.sampled_from(['corr', 'required_impact', 'pretestfit', 'bbtest', 'dwtest', 'aatest', 'tests_ok']),
          q2=st.sampled_from(['corr', 'required_impact', 'pretestfit', 'bbtest', 'dwtest', 'aatest', 'tests_ok']), same=st.booleans())
    def read_after_second_object(self, q, q2, same):
      self.r.step(['other', q])
      self.r.step(['read', q if same else q2])
      self._after()

    @rule(kind=st.sampled_from(['set_x', 'set_y']), i=st.integers(0, 4))
    def assign_second_object(self, kind, i):
      self.r.step(['other', kind, i])

    @rule(q=st.sampled_from(QUANTS))
    def read(self, q):
      self.r.step(['read', q])
      self._after()

    @rule(q=st.sampled_from(['tests_ok', 'aatest', 'bbtest', 'corr', 'required_impact', 'dwtest']))
    def read_cached(self, q):
      self.r.step(['read', q])
      self._after()

    @rule(xt=st.integers(0, 2000), yt=st.integers(0, 4000))
    def tbrfit(self, xt, yt):
      self.r.step(['tbrfit', xt, yt])
      self._after()

    def teardown(self):
      from vmm import core
      core.disarm()
      if self.r is not None and not self.done:
        self.done = True
        self.r.finish()
        sink(self.r.spec, self.r.outcome())

  return DiagMachine
