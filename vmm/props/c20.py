"""C20 - expansion of excluded days is exact.

Generator: lists of structured entries (single day / closed range, two separators, malformed
mutations) rendered to the documented string format. Oracle: datetime.date set-union model (R11).
"""
import datetime

from hypothesis import strategies as st

ID = 'C20'
RULE = ('Hypothesis lists of <=12 day/range entries (years 1900-2100, biased to month/year/leap '
        'boundaries and to a common anchor so entries overlap), rendered as YYYY/MM/DD, "A - B" or '
        '"A-B", plus unambiguous malformed mutations; a permuted+duplicated copy of the list is '
        'expanded too, and the parsed window objects are expanded again as a list and one by one (they must be unchanged and give their own days). Non-trivial = (>=2 entries with an overlap or a duplicate) or a range crossing '
        'a month/year/leap-day boundary or a malformed entry; distinct by spec hash.')
BUDGET = {'quick': 6400, 'thorough': 400000}
FLOOR = {'quick': 800, 'thorough': 50000}
ASSUMPTIONS = ['lenient parses (2020/1/1, 2020/01) are neither required nor forbidden and are not generated',
               'pandas Timestamp range (1677-2262) bounds the representable days; generator stays in 1900-2100']

MIN_ORD = datetime.date(1900, 1, 1).toordinal()
MAX_ORD = datetime.date(2100, 12, 31).toordinal()
BAD_KINDS = ['alpha', 'empty', 'blank', 'three', 'dashes', 'impossible', 'reversed', 'halfbad', 'openend', 'openend']
IMPOSSIBLE = [(2, 29), (2, 30), (2, 31), (4, 31), (6, 31), (9, 31), (11, 31), (13, 13), (13, 32), (0, 10),
              (5, 0), (7, 32), (12, 32), (1, 32), (14, 20), (0, 0)]


def _is_leap(y):
  return y % 4 == 0 and (y % 100 != 0 or y % 400 == 0)


@st.composite
def _day(draw, anchor):
  mode = draw(st.integers(0, 9))
  if mode <= 4:
    o = anchor + draw(st.integers(-45, 45))
  elif mode <= 6:
    # month / year boundary
    y = draw(st.integers(1900, 2100))
    m = draw(st.sampled_from([1, 2, 3, 12, 6, 7]))
    o = datetime.date(y, m, 1).toordinal() + draw(st.integers(-2, 1))
  elif mode == 7:
    # leap-day neighbourhood
    y = draw(st.sampled_from([1900, 1904, 1996, 2000, 2020, 2024, 2096, 2100, 2023, 2019]))
    o = datetime.date(y, 3, 1).toordinal() + draw(st.integers(-3, 1))
  else:
    o = draw(st.integers(MIN_ORD, MAX_ORD))
  return min(max(o, MIN_ORD), MAX_ORD)


@st.composite
def _entry(draw, anchor, allow_bad):
  a = draw(_day(anchor))
  kind = draw(st.sampled_from(['day', 'day', 'range', 'range', 'range']))
  e = {'a': a, 'b': None, 'sep': None, 'bad': None}
  if kind == 'range':
    ln = draw(st.one_of(st.integers(0, 5), st.integers(0, 70), st.integers(0, 400)))
    e['b'] = min(a + ln, MAX_ORD)
    e['sep'] = draw(st.sampled_from([' - ', '-', ' - ', '-', ' -', '- ', '  -  ']))
  if allow_bad and draw(st.integers(0, 5)) == 0:
    bad = draw(st.sampled_from(BAD_KINDS))
    e['bad'] = bad
    if bad == 'impossible':
      e['imp'] = draw(st.integers(0, len(IMPOSSIBLE) - 1))
    if bad == 'reversed':
      e['b'] = min(a + draw(st.integers(1, 400)), MAX_ORD)
      if e['b'] == a:
        e['a'] = a - 1
      e['sep'] = draw(st.sampled_from([' - ', '-']))
    if bad == 'halfbad':
      e['b'] = e['b'] if e['b'] is not None else a
      e['sep'] = e['sep'] or ' - '
      e['side'] = draw(st.integers(0, 1))
    if bad == 'openend':
      e['form'] = draw(st.integers(0, 2))
    if bad == 'alpha':
      e['text'] = draw(st.sampled_from(['abc', 'foo/bar/baz', 'xx/yy/zzzz', 'not a date', '??']))
  return e


@st.composite
def _spec(draw):
  anchor = draw(st.integers(MIN_ORD + 500, MAX_ORD - 500))
  if draw(st.integers(0, 3)) == 0:
    y = draw(st.integers(1901, 2099))
    anchor = datetime.date(y, draw(st.sampled_from([1, 3, 12])), 1).toordinal()
  allow_bad = draw(st.integers(0, 3)) == 0
  n = draw(st.integers(0, 12))
  entries = [draw(_entry(anchor, allow_bad)) for _ in range(n)]
  if n and draw(st.booleans()):
    # force exact duplicates / adjacency
    i = draw(st.integers(0, n - 1))
    entries.append(dict(entries[i]))
  m = len(entries)
  perm = draw(st.lists(st.integers(0, max(m - 1, 0)), min_size=0, max_size=6)) if m else []
  order = draw(st.permutations(list(range(m))))
  return {'entries': entries, 'order': list(order), 'dups': perm}


def strategy(tier):
  return _spec()


def fmt(o):
  d = datetime.date.fromordinal(o)
  return '%04d/%02d/%02d' % (d.year, d.month, d.day)


def render(e):
  bad = e.get('bad')
  if bad == 'alpha':
    return e['text']
  if bad == 'empty':
    return ''
  if bad == 'blank':
    return '   '
  if bad == 'three':
    return fmt(e['a']) + ' - ' + fmt(e['a']) + ' - ' + fmt(e['a'] + 1 if e['a'] < MAX_ORD else e['a'])
  if bad == 'dashes':
    d = datetime.date.fromordinal(e['a'])
    return '%04d-%02d-%02d' % (d.year, d.month, d.day)
  if bad == 'impossible':
    d = datetime.date.fromordinal(e['a'])
    m, dd = IMPOSSIBLE[e['imp']]
    y = d.year
    if (m, dd) == (2, 29) and _is_leap(y):
      y += 1
    return '%04d/%02d/%02d' % (y, m, dd)
  if bad == 'openend':
    # a range with one end missing: "A-", "A -", "-A"
    return [fmt(e['a']) + '-', fmt(e['a']) + ' -', '-' + fmt(e['a'])][e.get('form', 0)]
  if bad == 'reversed':
    return fmt(e['b']) + e['sep'] + fmt(e['a'])
  if bad == 'halfbad':
    parts = [fmt(e['a']), fmt(e['b'])]
    parts[e['side']] = 'abc'
    return parts[0] + e['sep'] + parts[1]
  if e['b'] is None:
    return fmt(e['a'])
  return fmt(e['a']) + e['sep'] + fmt(e['b'])


def _ts_to_ord(ts):
  import pandas as pd
  if not isinstance(ts, pd.Timestamp):
    return None
  if ts.hour or ts.minute or ts.second or ts.microsecond or ts.nanosecond or ts.tz is not None:
    return None
  return datetime.date(ts.year, ts.month, ts.day).toordinal()


def _pipeline(strings):
  from matched_markets.methodology import utils
  return utils.expand_time_windows(utils.find_days_to_exclude(strings))


def run(spec):
  from matched_markets.methodology import utils
  viol = []
  cls = []
  entries = spec['entries']
  strings = [render(e) for e in entries]
  any_bad = any(e.get('bad') for e in entries)

  model = set()
  crossing = False
  overlap = False
  if not any_bad:
    for e in entries:
      a = e['a']
      b = e['b'] if e['b'] is not None else a
      da, db = datetime.date.fromordinal(a), datetime.date.fromordinal(b)
      if (da.year, da.month) != (db.year, db.month):
        crossing = True
      if any(datetime.date.fromordinal(o).month == 2 and datetime.date.fromordinal(o).day == 29
             for o in (range(a, b + 1) if b - a < 800 else ())):
        crossing = True
      days = set(range(a, b + 1))
      if days & model:
        overlap = True
      model |= days

  def observe(lst):
    try:
      given = list(lst)
      out = _pipeline(lst)
      if lst != given:
        return ('crash', 'input list modified')
      return ('ok', out)
    except ValueError as e:
      return ('ValueError', str(e)[:80])
    except Exception as e:  # pylint: disable=broad-except
      return ('crash', '%s: %s' % (type(e).__name__, str(e)[:80]))

  res = observe(strings)
  if any_bad:
    cls.append('malformed')
    for e in entries:
      if e.get('bad'):
        cls.append('bad:' + e['bad'])
    if res[0] == 'ok':
      viol.append(('C20:malformed-accepted', {'strings': strings, 'n_result': len(res[1])}))
    elif res[0] == 'crash':
      viol.append(('C20:malformed-wrong-exception', {'strings': strings, 'exc': res[1]}))
  else:
    cls.append('wellformed')
    if res[0] != 'ok':
      viol.append(('C20:wellformed-rejected', {'strings': strings, 'exc': res[1]}))
    else:
      out = res[1]
      ords = [_ts_to_ord(t) for t in out]
      if any(o is None for o in ords):
        viol.append(('C20:not-a-midnight-timestamp', {'strings': strings}))
      else:
        if len(ords) != len(set(ords)):
          viol.append(('C20:duplicate-day', {'strings': strings}))
        if set(ords) != model:
          extra = sorted(set(ords) - model)[:3]
          missing = sorted(model - set(ords))[:3]
          viol.append(('C20:wrong-days', {'strings': strings, 'extra': [fmt(o) for o in extra],
                                          'missing': [fmt(o) for o in missing]}))
      # stage 1 alone: one window per entry with the right ends
      try:
        wins = utils.find_days_to_exclude(strings)
        if len(wins) != len(entries):
          viol.append(('C20:window-count', {'strings': strings, 'n': len(wins)}))
        else:
          for e, w in zip(entries, wins):
            b = e['b'] if e['b'] is not None else e['a']
            if _ts_to_ord(w.first_day) != e['a'] or _ts_to_ord(w.last_day) != b:
              viol.append(('C20:window-ends', {'entry': render(e), 'first': str(w.first_day), 'last': str(w.last_day)}))
              break
        # the same window objects expanded again: whole list, then each window alone (the windows are the caller's objects;
        # an expansion must neither change them nor answer differently the second time)
        if not viol and len(wins) == len(entries):
          first = utils.expand_time_windows(wins)
          ends = [(_ts_to_ord(w.first_day), _ts_to_ord(w.last_day)) for w in wins]
          want_ends = [(e['a'], e['b'] if e['b'] is not None else e['a']) for e in entries]
          if ends != want_ends:
            viol.append(('C20:window-objects-modified', {'strings': strings, 'ends': [[fmt(a), fmt(b)] for a, b in ends]}))
          if set(_ts_to_ord(t) for t in first) != model:
            viol.append(('C20:wrong-days', {'strings': strings, 'where': 'expansion of the window list'}))
          for e, w in zip(entries, wins):
            alone = utils.expand_time_windows([w])
            b = e['b'] if e['b'] is not None else e['a']
            if sorted(_ts_to_ord(t) for t in alone) != list(range(e['a'], b + 1)):
              viol.append(('C20:wrong-days', {'entry': render(e), 'where': 'window expanded alone after the list was expanded',
                                              'got': len(alone), 'want': b - e['a'] + 1}))
              break
          cls.append('windows-re-expanded')
      except Exception as e:  # pylint: disable=broad-except
        viol.append(('C20:stage1-raised', {'strings': strings, 'exc': '%s: %s' % (type(e).__name__, e)}))
      # metamorphic: order / duplication
      strings2 = [strings[i] for i in spec['order']] + [strings[i] for i in spec['dups']]
      res2 = observe(strings2)
      if res2[0] != 'ok':
        viol.append(('C20:permuted-rejected', {'strings': strings2, 'exc': res2[1]}))
      elif res[0] == 'ok' and (sorted(res2[1]) != sorted(res[1])):
        viol.append(('C20:order-dependent', {'strings': strings, 'strings2': strings2}))
  if len(entries) == 0:
    cls.append('empty-list')
  if overlap:
    cls.append('overlap')
  if crossing:
    cls.append('boundary-crossing')
  nt = any_bad or (len(entries) >= 2 and overlap) or crossing
  return {'viol': viol, 'nt': bool(nt), 'cls': cls, 'dc': 0}
