"""C10 - the search API has no hidden state: answers do not depend on call history (histories).

RuleBasedStateMachine around one TBRMatchedMarkets; model = a fresh object (fresh frame copy, fresh parameter
object) on which only the current call is made. Invariants after every step: the caller's parameter object,
frame and eligibility frame are unmodified.
"""
import dataclasses

import numpy as np
from hypothesis import strategies as st
from hypothesis.stateful import RuleBasedStateMachine, initialize, rule, precondition

from vmm import util
from vmm.gen import search as G
from vmm.ref import searchlib as L

ID = 'C10'
RULE = ('RuleBasedStateMachine histories over the public API of one TBRMatchedMarkets object built from a drawn (panel <=5 geos, '
        'eligibility, parameters) spec (half of the >=4-geo specs with two control-only geos carrying identical series, i.e. exactly tied designs): geos_over_budget, geos_too_large, geos_must_include, geos_within_constraints, '
        'geo_assignments, treatment_group_size_range, count_max_designs, treatment_group_generator(n), '
        'control_group_generator(T), design_within_constraints(T, C), exhaustive_search, greedy_search, search_results, and the caller editing the list or the design objects it was handed (pop, reverse, clear, geo sets changed) followed by a retrieval; and the caller assigning a field of its live parameter object (the reference then is a fresh object with the new values; stored results are not asked for until the next search). '
        'Each answer (or exception type) is compared with the same call on a freshly built object; parameters / frame / '
        'eligibility frame must stay equal to deep copies. Non-trivial = history with >=2 searches, or >=2 retrievals, or a '
        'query after a search; distinct by spec hash (inputs + op sequence).')
BUDGET = {'quick': 320, 'thorough': 8000}
FLOOR = {'quick': 60, 'thorough': 1500}
STEPS = {'quick': 10, 'thorough': 25}
ROUNDS = {'quick': 2, 'thorough': 4}
ASSUMPTIONS = ['design_within_constraints is issued as "read geo_assignments, then call" on both sides (it needs the geo index installed)',
               'numpy global RNG re-seeded before each search on both sides (greedy draws an unused placeholder series)']

QUERIES = ['geos_over_budget', 'geos_too_large', 'geos_must_include', 'geos_within_constraints', 'geo_assignments',
           'treatment_group_size_range', 'count_max_designs']


def norm(v):
  """Library answer -> comparable plain structure."""
  from matched_markets.methodology import geoeligibility, tbrmmdesign
  if isinstance(v, (set, frozenset)):
    return sorted(str(x) for x in v)
  if isinstance(v, range):
    return list(v)
  if isinstance(v, geoeligibility.GeoAssignments):
    return {k: sorted(str(x) for x in getattr(v, k)) for k in ('all', 'c', 't', 'x', 'c_fixed', 't_fixed', 'x_fixed', 'ct', 'cx', 'ctx', 'tx')}
  if isinstance(v, tbrmmdesign.TBRMMDesign):
    d = v.diag
    return {'T': sorted(str(x) for x in v.treatment_geos), 'C': sorted(str(x) for x in v.control_geos),
            'score': [float(x) for x in v.score.score], 'corr': float(d.corr), 'impact': float(d.required_impact),
            'x': np.asarray(d.x, float).tolist(), 'y': np.asarray(d.y, float).tolist()}
  if isinstance(v, (list, tuple)):
    return [norm(x) for x in v]
  if isinstance(v, (np.integer,)):
    return int(v)
  if isinstance(v, (np.bool_, bool)):
    return bool(v)
  return v


def same(a, b):
  if isinstance(a, dict) and isinstance(b, dict):
    return a.keys() == b.keys() and all(same(a[k], b[k]) for k in a)
  if isinstance(a, list) and isinstance(b, list):
    return len(a) == len(b) and all(same(x, y) for x, y in zip(a, b))
  if isinstance(a, float) or isinstance(b, float):
    return util.close(a, b, 1e-12)
  return a == b


class Runner:

  def __init__(self, base):
    from matched_markets.methodology import tbrmmdesignparameters
    self.spec = {'base': base, 'ops': []}
    self.case = L.materialise(base)
    self.viol = []
    self.searches = 0
    self.retrievals = 0
    self.query_after_search = False
    self.last_search = None
    self.dead = False
    self.tied = False
    self.mutated = False
    self.params_changed = False
    self.df0 = self.case.df.copy(deep=True)
    self.el0 = None if self.case.elig_df is None else self.case.elig_df.copy(deep=True)
    try:
      self.par = tbrmmdesignparameters.TBRMMDesignParameters(**self.case.kwargs)
      self.par0 = dataclasses.asdict(self.par)
      self.obj = self._build(self.par)
    except ValueError:
      self.dead = True        # input not accepted: nothing to test

  def _build(self, par=None):
    from matched_markets.methodology import geoeligibility, tbrmatchedmarkets, tbrmmdata, tbrmmdesignparameters
    if par is None:
      par = tbrmmdesignparameters.TBRMMDesignParameters(**self.case.kwargs)
      df, el = self.df0.copy(deep=True), (None if self.el0 is None else self.el0.copy(deep=True))
    else:
      df, el = self.case.df, self.case.elig_df          # the caller's own frames
    ge = geoeligibility.GeoEligibility(el) if el is not None else None
    return tbrmatchedmarkets.TBRMatchedMarkets(tbrmmdata.TBRMMData(df, self.case.resp_col, ge), par)

  def _n_adm(self):
    return max(1, len(self.case.space.adm))

  def _call(self, obj, op, replay_search=None):
    kind = op[0]
    try:
      if kind in QUERIES:
        v = getattr(obj, kind)
        return ('ok', norm(v() if callable(v) else v))
      n = self._n_adm()
      if kind == 'treatment_group_generator':
        return ('ok', norm(list(obj.treatment_group_generator(op[1]))))
      if kind == 'control_group_generator':
        T = {i % n for i in op[1]}
        return ('ok', norm(list(obj.control_group_generator(T))))
      if kind == 'design_within_constraints':
        _ = obj.geo_assignments
        T = {i % n for i in op[1]}
        C = {i % n for i in op[2]} - T
        return ('ok', norm(obj.design_within_constraints(T, C)))
      if kind in ('exhaustive_search', 'greedy_search'):
        np.random.seed(777)
        return ('ok', norm(getattr(obj, kind)()))
      if kind == 'search_results':
        if replay_search is not None:
          # model: the designs the search itself returned (its own, first, retrieval)
          np.random.seed(777)
          return ('ok', norm(getattr(obj, replay_search)()))
        return ('ok', norm(obj.search_results()))
    except Exception as e:  # pylint: disable=broad-except
      return ('exc', type(e).__name__, str(e)[:120])
    raise ValueError(op)

  def _mutate_returned(self, how):
    """The caller edits what it was handed (the list and the design objects in it are the caller's copies)."""
    try:
      if how == 4 and self.last_search:
        np.random.seed(777)
        raw = getattr(self.obj, self.last_search)()
        self.searches += 1
      else:
        raw = self.obj.search_results()
      if not isinstance(raw, list):
        return
      if how == 0 and raw:
        raw.pop(0)
      elif how == 1:
        raw.reverse()
      elif how == 2:
        raw.clear()
      elif raw:
        d = raw[0]
        if isinstance(d.treatment_geos, set):
          d.treatment_geos.add('no-such-geo')
        if isinstance(d.control_geos, set):
          d.control_geos.clear()
        raw.sort(key=lambda x: len(x.treatment_geos))
    except Exception:  # pylint: disable=broad-except
      pass          # failures of the calls themselves are reported by the ordinary ops

  def step(self, op):
    if self.dead:
      return
    self.spec['ops'].append(op)
    kind = op[0]
    if kind == 'mutate_returned':
      self._mutate_returned(op[1])
      self.mutated = True
      return
    if kind == 'set_param':
      # the caller changes a field of its (live) parameter object; from here on the reference is a fresh object built with
      # the new values. Results stored by an earlier search are not asked for again before the next search.
      field, value = op[1], op[2]
      value = tuple(value) if isinstance(value, list) else value
      import copy
      from matched_markets.methodology import tbrmmdesignparameters
      kw = dict(self.case.kwargs)
      if value is None:
        kw.pop(field, None)
      else:
        kw[field] = value
      try:
        tbrmmdesignparameters.TBRMMDesignParameters(**kw)
      except ValueError:
        return                      # not a legal combination: the caller does not do it
      self.case = copy.copy(self.case)
      self.case.kwargs = kw
      setattr(self.par, field, value)
      self.par0 = dataclasses.asdict(self.par)
      self.last_search = None
      self.params_changed = True
      return
    got = self._call(self.obj, op)
    try:
      fresh = self._build()
    except ValueError:
      self.dead = True
      return
    want = self._call(fresh, op, replay_search=self.last_search if kind == 'search_results' else None)
    if kind in ('exhaustive_search', 'greedy_search'):
      self.searches += 1
      if got[0] == 'ok':
        self.last_search = kind
        scores = [tuple(d['score']) for d in got[1]]
        if len(set(scores)) < len(scores):
          self.tied = True
    elif kind == 'search_results':
      self.retrievals += 1
    elif self.searches:
      self.query_after_search = True
    ok = got[0] == want[0] and (same(got[1], want[1]) if got[0] == 'ok' else got[1] == want[1])
    if not ok:
      self.viol.append(('C10:history-dependent:%s' % kind, {'step': len(self.spec['ops']), 'history': [o[0] for o in self.spec['ops']],
                                                          'got': summarize(got), 'fresh': summarize(want)}))
    self.invariants(kind)

  def invariants(self, kind):
    now = dataclasses.asdict(self.par)
    if now != self.par0:
      diff = {k: (self.par0[k], now[k]) for k in now if now[k] != self.par0[k]}
      self.viol.append(('C10:parameters-modified', {'after': kind, 'diff': {k: [str(a), str(b)] for k, (a, b) in diff.items()}}))
      self.par0 = now
    if not self.case.df.equals(self.df0):
      self.viol.append(('C10:input-frame-modified', {'after': kind}))
      self.df0 = self.case.df.copy(deep=True)
    if self.el0 is not None and not self.case.elig_df.equals(self.el0):
      self.viol.append(('C10:eligibility-frame-modified', {'after': kind}))
      self.el0 = self.case.elig_df.copy(deep=True)

  def outcome(self):
    nt = (self.searches >= 2 or self.retrievals >= 2 or self.query_after_search) and not self.dead
    cls = ['searches:%d' % min(self.searches, 3), 'retrievals:%d' % min(self.retrievals, 3)]
    if self.query_after_search:
      cls.append('query-after-search')
    if self.dead:
      cls.append('input-rejected')
    if self.tied:
      cls.append('exactly-tied-designs-returned')
    if self.mutated:
      cls.append('caller-edited-returned-designs')
    if self.params_changed:
      cls.append('parameter-changed-between-calls')
    if self.spec['base']['panel'].get('copy'):
      cls.append('twin-geos')
    return {'viol': list(self.viol[:3]), 'nt': nt, 'cls': cls, 'dc': 0}


def summarize(r):
  if r[0] == 'exc':
    return list(r)
  v = r[1]
  if isinstance(v, list) and v and isinstance(v[0], dict) and 'T' in v[0]:
    return ['designs', [[d['T'], d['C'], d['score']] for d in v[:3]]]
  s = repr(v)
  return ['ok', s[:300]]


def run(spec):
  r = Runner(spec['base'])
  for op in spec['ops']:
    r.step(list(op))
  return r.outcome()


def machine(tier, sink):
  max_geos = 4 if tier == 'quick' else 5
  idx = st.lists(st.integers(0, 7), min_size=1, max_size=4)

  class ApiMachine(RuleBasedStateMachine):

    def __init__(self):
      super().__init__()
      self.r = None
      self.done = False
      from vmm import core
      core.arm()

    @initialize(base=st.one_of(G.search_spec(max_geos=max_geos, min_geos=2, constraint_p=0.3, max_dates=16),
                               G.search_spec(max_geos=max_geos + 1, min_geos=4, constraint_p=0.15, elig_style='mixed', max_dates=12),
                               G.search_spec(max_geos=max_geos, min_geos=3, constraint_p=0.2, elig_style='mixed', max_dates=16)))
    def init(self, base):
      base['params']['n_designs'] = min(base['params']['n_designs'], 10)
      ids = base['panel']['ids']
      if len(ids) >= 4 and base['panel']['perm_seed'] % 2 == 1:
        # twin geos (bit-identical series) that may only serve as controls: designs differing in the twin tie exactly
        i, j = base['panel']['perm_seed'] % len(ids), (base['panel']['perm_seed'] // 7) % (len(ids) - 1)
        j = j if j < i else j + 1
        base['panel']['copy'] = [[i, j]]
        if base['panel']['perm_seed'] % 4 < 2:
          rows = [] if base['elig'] is None else [r for r in base['elig']['rows'] if r[0] not in (ids[i], ids[j])]
          rows += [[ids[i], 1, 0, 1], [ids[j], 1, 0, 1]]
          base['elig'] = dict(base['elig'] or {'as_index': False, 'style': 'twins', 'col_order': None, 'row_labels': None}, rows=rows)
        else:
          # the twins are the two smallest geos of an unrestricted panel: a candidate pairing one against the other is
          # perfectly correlated and the exhaustive search raises ValueError part-way, after other designs were scored -
          # a later retrieval must still show the last search that completed
          n = len(ids)
          base['panel']['copy'] = [[0, 1]]
          base['panel']['level'] = [1, 1] + [[8, 12, 20, 32][k % 4] for k in range(n - 2)]
          base['panel']['early'], base['panel']['sign'] = [1] * n, [1] * n
          base['panel']['near_copy'], base['panel']['flat'], base['panel']['missing'] = [], [], []
          base['elig'] = None
          for k in ('n_geos_max', 'budget_q', 'share_q', 'treatment_geos_range', 'control_geos_range', 'geo_ratio_tolerance', 'volume_ratio_tolerance'):
            base['params'][k] = None
        base['params']['n_designs'] = max(5, base['params']['n_designs'])
      if len(base['panel']['ids']) >= 4 and base['panel']['perm_seed'] % 3 == 0:
        base['params']['n_geos_max'] = 2 + base['panel']['perm_seed'] % 2      # a binding cap on the geos admitted
      self.r = Runner(base)

    def _do(self, op):
      self.r.step(op)
      if self.r.viol and not self.done:
        self.done = True
        sink(self.r.spec, self.r.outcome())

    @rule(q=st.sampled_from(QUERIES))
    def query(self, q):
      self._do([q])

    @rule(n=st.integers(1, 4))
    def treatment_groups(self, n):
      self._do(['treatment_group_generator', n])

    @rule(T=idx)
    def control_groups(self, T):
      self._do(['control_group_generator', T])

    @rule(T=idx, C=idx)
    def within_constraints(self, T, C):
      self._do(['design_within_constraints', T, C])

    @rule()
    def exhaustive(self):
      self._do(['exhaustive_search'])

    @rule()
    def greedy(self):
      self._do(['greedy_search'])

    @precondition(lambda self: self.r is not None and self.r.last_search is not None)
    @rule()
    def results(self):
      self._do(['search_results'])

    @precondition(lambda self: self.r is not None and self.r.last_search is not None)
    @rule(field=st.sampled_from(['treatment_geos_range', 'control_geos_range']), kind=st.sampled_from(['exhaustive_search', 'greedy_search']))
    def make_infeasible_search_retrieve(self, field, kind):
      # after a search that completed: a size range no design can meet, a search (which finds nothing), a retrieval, and
      # the range taken away again
      self._do(['set_param', field, [9, 12]])
      self._do([kind])
      if self.r.last_search is not None:
        self._do(['search_results'])
      self._do(['set_param', field, None])

    @precondition(lambda self: self.r is not None and self.r.last_search is not None)
    @rule(kind=st.sampled_from(['exhaustive_search', 'greedy_search']))
    def search_again_then_retrieve(self, kind):
      # (if this search raises, the retrieval must still show the last search that completed)
      self._do([kind])
      self._do(['search_results'])

    @precondition(lambda self: self.r is not None and self.r.last_search is not None)
    @rule()
    def results_twice(self):
      self._do(['search_results'])
      self._do(['search_results'])

    @rule(fv=st.sampled_from([('n_designs', 1), ('n_designs', 4), ('treatment_geos_range', [1, 1]), ('treatment_geos_range', [2, 3]),
                              ('treatment_geos_range', [9, 12]), ('treatment_geos_range', None), ('control_geos_range', [1, 2]),
                              ('control_geos_range', [7, 9]), ('control_geos_range', None), ('n_geos_max', 2), ('n_geos_max', 3), ('n_geos_max', None),
                              ('geo_ratio_tolerance', 0.5), ('geo_ratio_tolerance', None)]),
          then=st.sampled_from(['exhaustive_search', 'greedy_search', 'count_max_designs', 'geo_assignments']))
    def change_parameter(self, fv, then):
      self._do(['set_param', fv[0], fv[1]])
      self._do([then])
      if then.endswith('_search') and self.r.last_search is not None:
        self._do(['search_results'])

    @precondition(lambda self: self.r is not None and self.r.last_search is not None)
    @rule(how=st.integers(0, 4))
    def edit_returned_then_retrieve(self, how):
      self._do(['mutate_returned', how])
      self._do(['search_results'])

    def teardown(self):
      from vmm import core
      core.disarm()
      if self.r is not None and not self.done:
        self.done = True
        sink(self.r.spec, self.r.outcome())

  return ApiMachine
