"""C09 - searches are total: infeasible inputs give an empty list (or ValueError), never another exception."""
import signal

from hypothesis import strategies as st

from vmm.gen import search as G
from vmm.ref import searchlib as L

ID = 'C09'
RULE = ('Hypothesis search inputs, degenerate-biased: 1-4 geos, eligibility styles {none, all-control, all-treatment, '
        'all-excluded, fixed-heavy, mixed}, unsatisfiable or extreme constraints (size ranges beyond the geos, tolerances '
        '1e-3, unsatisfiable-low/high share and budget ranges, n_geos_max, iroas=0, n_pretest_max=n_test+3), plus the general '
        'generator (<=6 geos) for breadth; both searches, each on a fresh object, under a CPU-time watchdog (20 s quick / 120 s thorough); plus accepted-but-unusual inputs (integer-valued floats for the size ranges and the integer fields, size ranges with an upper bound of 10^6 ... 2^63, tests of ~100 time points, bit-identical geos, nullable response dtypes) and, in ~4% of the cases, 65-72 geos of which 3-4 are treatable, one control geo per design and a budget cap just above the dearest single geo (quick tier: exhaustive search only for these). '
        'Non-trivial = some search returned [] or ValueError, or the admitted set is smaller than 2; distinct by '
        '(eligibility class vector, set of specified constraints, outcomes).')
BUDGET = {'quick': 1600, 'thorough': 60000}
FLOOR = {'quick': 100, 'thorough': 400}
SHRINK = {'quick': True, 'thorough': True}
ROUNDS = {'quick': 3, 'thorough': 6}
ASSUMPTIONS = ['window of >= n_test+3 non-constant points holds by construction', 'termination is observed under a CPU budget, not proved',
               'ValueError at construction of the data/parameter objects means "input not accepted" (counted, not checked)']

WATCHDOG = {'quick': 20, 'thorough': 120}     # CPU seconds of this process; terminating cases need < 1 s (quick sizes) / < 15 s (8 geos)


class _Timeout(BaseException):
  pass


def _alarm(signum, frame):
  raise _Timeout()


@st.composite
def _special(draw):
  """Accepted but unusual inputs: integer-valued float size ranges, long tests (n_test ~ 100), bit-identical geos."""
  kind = draw(st.sampled_from(['float-ranges', 'float-ranges', 'long-test', 'identical-geos', 'big-upper-bound']))
  if kind == 'long-test':
    spec = draw(G.search_spec(max_geos=3, min_geos=2, constraint_p=0.15, max_dates=12))
    n_test = draw(st.sampled_from([96, 97, 98, 99, 100, 104, 120]))
    n_dates = n_test + draw(st.integers(3, 8))
    panel = spec['panel']
    panel['n_test'], panel['n_dates'] = n_test, n_dates
    panel['factor'] = [((7 * i) % 5) - 2 for i in range(n_dates)]
    panel['noise'] = [[((11 * i + 5 * g) % 64) - 32 for i in range(n_dates)] for g in range(len(panel['ids']))]
    panel['flat'], panel['missing'] = [], []
    # the window (last n_pretest_max dates) must hold >= n_test + 3 points: the default of 90 would not
    spec['params']['n_pretest_max'] = draw(st.integers(n_test + 3, n_dates + 5))
    spec['params']['budget_q'] = spec['params']['share_q'] = None
  elif kind == 'float-ranges':
    spec = draw(G.search_spec(max_geos=4, min_geos=2, constraint_p=0.3))
    spec['params']['treatment_geos_range'] = list(draw(st.sampled_from([(1, 1), (1, 2), (2, 3), (1, 4)])))
    if draw(st.booleans()):
      spec['params']['control_geos_range'] = list(draw(st.sampled_from([(1, 1), (1, 2), (2, 3), (1, 4)])))
    spec['params']['float_ranges'] = True
    # ... and the integer fields as well (n_test=7.0, n_geos_max=3.0 ...)
    spec['params']['float_ints'] = sorted(draw(st.sets(st.sampled_from(['n_test', 'n_designs', 'n_geos_max', 'n_pretest_max']), max_size=4)))
    if 'n_geos_max' in spec['params']['float_ints'] and spec['params'].get('n_geos_max') is None:
      spec['params']['n_geos_max'] = draw(st.sampled_from([2, 3]))
  elif kind == 'big-upper-bound':
    spec = draw(G.search_spec(max_geos=5, min_geos=2, constraint_p=0.25))
    big = draw(st.sampled_from([10 ** 6, 10 ** 30, 2 ** 63]))
    which = draw(st.sampled_from([['treatment_geos_range'], ['control_geos_range'], ['treatment_geos_range', 'control_geos_range']]))
    for k in which:
      if spec['params'].get(k) is None:
        spec['params'][k] = [1, 2]
    spec['params']['big_upper'] = {k: big for k in which}
  else:
    spec = draw(G.search_spec(max_geos=5, min_geos=3, constraint_p=0.2, elig_style=draw(st.sampled_from(['mixed', 'all-control', 'free']))))
    n = len(spec['panel']['ids'])
    i = draw(st.integers(0, n - 1))
    j = draw(st.integers(0, n - 2))
    spec['panel']['copy'] = [[i, j if j < i else j + 1]]
    spec['panel']['flat'] = []
  spec['special'] = kind
  return spec


@st.composite
def _many_geos(draw):
  """A realistic number of geos (65-72) with a search space kept small by eligibility: 3-4 treatable geos (some among
  the smallest, i.e. at the end of the geo index), everything else control-or-excluded, one control geo per design,
  treatment groups of 1-3 geos, and a budget cap a little above the most expensive single treatable geo."""
  base = draw(G.search_spec(max_geos=12, min_geos=12, constraint_p=0.0, allow_budget=False, allow_share=False, elig_style='none', max_dates=14))
  p0 = base['panel']
  n = draw(st.integers(65, 72))
  nd = p0['n_dates']
  panel = dict(p0, ids=[str(i + 1) for i in range(n)], id_int=draw(st.booleans()), flat=[], missing=[], copy=[], row_labels=None, offset=0,
               level=[p0['level'][i % 12] for i in range(n)], amp=[p0['amp'][i % 12] for i in range(n)],
               sign=[1] * n, early=[1] * n,
               noise=[[(p0['noise'][i % 12][d] * (1 + i // 12) + 37 * i * (d + 1) + 11 * d * d) % 1021 - 510 for d in range(nd)] for i in range(n)])
  k = draw(st.integers(3, 4))
  treat = draw(st.lists(st.integers(0, n - 1), min_size=k, max_size=k, unique=True))
  for j, i in enumerate(treat):
    panel['level'][i] = [32, 32, 1, 1][j]             # two large and one or two of the smallest geos
  rows = [[panel['ids'][i]] + ([0, 1, 1] if i in treat else [1, 0, 1]) for i in range(n)]
  params = dict(base['params'], n_designs=draw(st.sampled_from([1, 3])), treatment_geos_range=[1, 3], control_geos_range=[1, 1],
                geo_ratio_tolerance=None, volume_ratio_tolerance=None, n_geos_max=None, share_q=None, budget_q=None,
                budget_rel=draw(st.sampled_from([1.05, 1.3, 2.5])), iroas=draw(st.sampled_from([1.0, 3])))
  return {'panel': panel, 'elig': {'rows': rows, 'as_index': draw(st.booleans()), 'style': 'many-geos', 'col_order': None, 'row_labels': None},
          'params': params, 'history': None, 'special': 'many-geos'}


def strategy(tier):
  big = 6 if tier == 'quick' else 8
  usual = st.one_of(G.search_spec(max_geos=4, degenerate=True, constraint_p=0.6), _special(),
                    G.search_spec(max_geos=2, degenerate=True, constraint_p=0.4),
                    G.search_spec(max_geos=big, constraint_p=0.5))
  # ~4% of the cases carry 65-72 geos (about 10 CPU-seconds each, mostly the greedy search)
  return st.integers(0, 24).flatmap(lambda k: _many_geos() if k == 0 else usual)


def run(spec):
  case = L.materialise(spec)
  sp = case.space
  viol = []
  outcomes = []
  cls = ['geos:%d' % len(sp.geos), 'elig:%s' % (spec['elig']['style'] if spec['elig'] else 'none')]
  if spec.get('special'):
    cls.append('special:' + spec['special'])
  det = L.describe(case)
  import os
  methods = ('exhaustive_search', 'greedy_search')
  if spec.get('special') == 'many-geos' and os.environ.get('VERIF_TIER_EFFECTIVE', 'thorough') == 'quick':
    methods = ('exhaustive_search',)        # the greedy search over ~70 geos takes ~10 CPU-seconds: thorough tier only
  for method in methods:
    old = signal.signal(signal.SIGVTALRM, _alarm)
    budget = WATCHDOG.get(os.environ.get('VERIF_TIER_EFFECTIVE', 'thorough'), 120)
    signal.setitimer(signal.ITIMER_VIRTUAL, budget)
    try:
      res = L.run_search(case, method, history=spec.get('history'))
    except _Timeout:
      res = ('crash', 'no-termination', 'CPU budget of %d s exhausted' % budget)
    finally:
      signal.setitimer(signal.ITIMER_VIRTUAL, 0)
      signal.signal(signal.SIGVTALRM, old)
    if res[0] == 'ok':
      from matched_markets.methodology import tbrmmdesign
      if not all(isinstance(r['raw'], tbrmmdesign.TBRMMDesign) for r in res[1]):
        viol.append(('C09:%s:not-designs' % method, det))
      outcomes.append('empty' if not res[1] else 'designs')
    elif res[0] == 'rejected':
      outcomes.append('rejected')
    elif res[0] == 'ValueError':
      outcomes.append('ValueError')
      cls.append('VE:' + res[1][:40])
    elif res[1].startswith('build:'):
      outcomes.append('build-crash')     # construction is outside C09 (C15/C16/C17 decide it)
    else:
      outcomes.append('crash')
      kind = res[1].replace('%s:crash:' % method, '')
      viol.append(('C09:%s:%s' % (method, kind), dict(det, exc=res[2])))
  cls += ['%s:%s' % (m[:3], o) for m, o in zip(('exhaustive', 'greedy'), outcomes)]
  outcomes += ['not-run'] * (2 - len(outcomes))
  nt = any(o in ('empty', 'ValueError') for o in outcomes) or (not sp.reject and len(sp.adm) < 2 and 'rejected' not in outcomes)
  vec = tuple(sorted(sp.elig.values())) if not sp.reject else ('reject',)
  key = repr((vec, tuple(sorted(k for k in case.kwargs if k not in ('n_test', 'iroas', 'n_designs'))), tuple(outcomes)))
  return {'viol': viol, 'nt': nt, 'cls': cls, 'dc': 0, 'key': key}
