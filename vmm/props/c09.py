"""C09 - searches are total: infeasible inputs give an empty list (or ValueError), never another exception."""
import signal

from hypothesis import strategies as st

from vmm.gen import search as G
from vmm.ref import searchlib as L

ID = 'C09'
RULE = ('Hypothesis search inputs, degenerate-biased: 1-4 geos, eligibility styles {none, all-control, all-treatment, '
        'all-excluded, fixed-heavy, mixed}, unsatisfiable or extreme constraints (size ranges beyond the geos, tolerances '
        '1e-3, unsatisfiable-low/high share and budget ranges, n_geos_max, iroas=0, n_pretest_max=n_test+3), plus the general '
        'generator (<=6 geos) for breadth; both searches, each on a fresh object, under a 120 s CPU-time watchdog. '
        'Non-trivial = some search returned [] or ValueError, or the admitted set is smaller than 2; distinct by '
        '(eligibility class vector, set of specified constraints, outcomes).')
BUDGET = {'quick': 1600, 'thorough': 60000}
FLOOR = {'quick': 100, 'thorough': 400}
SHRINK = {'quick': True, 'thorough': True}
ROUNDS = {'quick': 3, 'thorough': 6}
ASSUMPTIONS = ['window of >= n_test+3 non-constant points holds by construction', 'termination is observed under a CPU budget, not proved',
               'ValueError at construction of the data/parameter objects means "input not accepted" (counted, not checked)']

WATCHDOG_S = 120


class _Timeout(BaseException):
  pass


def _alarm(signum, frame):
  raise _Timeout()


def strategy(tier):
  big = 6 if tier == 'quick' else 8
  return st.one_of(G.search_spec(max_geos=4, degenerate=True, constraint_p=0.6),
                   G.search_spec(max_geos=2, degenerate=True, constraint_p=0.4),
                   G.search_spec(max_geos=big, constraint_p=0.5))


def run(spec):
  case = L.materialise(spec)
  sp = case.space
  viol = []
  outcomes = []
  cls = ['geos:%d' % len(sp.geos), 'elig:%s' % (spec['elig']['style'] if spec['elig'] else 'none')]
  det = L.describe(case)
  for method in ('exhaustive_search', 'greedy_search'):
    old = signal.signal(signal.SIGVTALRM, _alarm)
    signal.setitimer(signal.ITIMER_VIRTUAL, WATCHDOG_S)
    try:
      res = L.run_search(case, method, history=spec.get('history'))
    except _Timeout:
      res = ('crash', 'no-termination', 'CPU budget of %d s exhausted' % WATCHDOG_S)
    finally:
      signal.setitimer(signal.ITIMER_VIRTUAL, 0)
      signal.signal(signal.SIGVTALRM, old)
    if res[0] == 'ok':
      from matched_markets.methodology import tbrmmdesign
      if not all(isinstance(r['raw'], tbrmmdesign.TBRMMDesign) for r in res[1]):
        viol.append(('C09:%s:not-designs' % method, det))
      outcomes.append('empty' if not res[1] else 'designs')
    elif res[0] == 'rejected':
      outcomes.append('rejected')
    elif res[0] == 'ValueError':
      outcomes.append('ValueError')
      cls.append('VE:' + res[1][:40])
    elif res[1].startswith('build:'):
      outcomes.append('build-crash')     # construction is outside C09 (C15/C16/C17 decide it)
    else:
      outcomes.append('crash')
      kind = res[1].replace('%s:crash:' % method, '')
      viol.append(('C09:%s:%s' % (method, kind), dict(det, exc=res[2])))
  cls += ['%s:%s' % (m[:3], o) for m, o in zip(('exhaustive', 'greedy'), outcomes)]
  nt = any(o in ('empty', 'ValueError') for o in outcomes) or (not sp.reject and len(sp.adm) < 2 and 'rejected' not in outcomes)
  vec = tuple(sorted(sp.elig.values())) if not sp.reject else ('reject',)
  key = repr((vec, tuple(sorted(k for k in case.kwargs if k not in ('n_test', 'iroas', 'n_designs'))), tuple(outcomes)))
  return {'viol': viol, 'nt': nt, 'cls': cls, 'dc': 0, 'key': key}
