"""C18 - pointwise and cumulative effect series are well-formed for any experiment with cooldown."""
import numpy as np
from hypothesis import strategies as st

from vmm import util
from vmm.gen import frames
from vmm.ref import tbrref

ID = 'C18'
RULE = ('Hypothesis experiment frames with n_cool >= 1 and a cost column (both scenarios), default and post-analysis-colab '
        'layouts (assignment column, labels 2/1/-1, excluded geos, period -1 rows before/after, date gaps), metric in '
        '{tbr_response, tbr_cost}, tails in {1,2}, level in [0.55,0.995] (one tail) / (0.02,0.995] (two tails); in half of the cases the model object was first fitted to a frame of the other cost scenario and queried; in half of the cases the caller edits its own frame (unit change, rows dropped in place) between fit() and the report. '
        'Non-trivial = n_pre >= 4 and >= 2 analysed days (first differences exist); distinct by spec hash.')
BUDGET = {'quick': 800, 'thorough': 30000}
FLOOR = {'quick': 300, 'thorough': 10000}
ASSUMPTIONS = ['date, period, cost and response columns keep their default names', 'scipy.stats.t trusted']


@st.composite
def _spec(draw):
  fs = draw(frames.experiment_frame_spec('c18'))
  tails = draw(st.sampled_from([1, 2]))
  if tails == 1:
    level = draw(st.sampled_from([0.9, 0.8, 0.95])) if draw(st.booleans()) else draw(st.floats(0.55, 0.995))
  else:
    level = draw(st.sampled_from([0.9, 0.8, 0.5])) if draw(st.booleans()) else draw(st.floats(0.02, 0.995, exclude_min=True))
  return {'frame': fs, 'metric': draw(st.sampled_from(['tbr_response', 'tbr_cost'])), 'tails': tails, 'level': level,
          'refit': draw(st.booleans()), 'scribble': draw(st.booleans()), 'summary_first': draw(st.booleans())}


def strategy(tier):
  return _spec()


def run(spec):
  from vmm import core
  from vmm.props import c07
  fs = spec['frame']
  df, kwargs, truth = frames.materialise(fs)
  pre, an = frames.masks(truth, True)
  sem = np.array(truth['sem'])
  in3 = pre | an
  scen = fs['cost']['scenario']
  metric = spec['metric']
  if metric == 'tbr_response':
    Xs, Ys = truth['X'], truth['Y']
  else:
    Xs, Ys = truth['CX'], truth['CY']
  viol = []
  cls = ['metric:' + metric, 'scenario:' + scen, 'tails:%d' % spec['tails']]
  un_periods = bool(fs['n_before'] or fs['n_after'])
  if un_periods:
    cls.append('unassigned-periods')
  if fs['colab']:
    cls.append('colab-layout')
  fixed_cost_metric = scen == 'fixed' and metric == 'tbr_cost'
  post = None
  lib_only = False
  if not fixed_cost_metric:
    post = tbrref.Posterior(Xs[pre], Ys[pre], Xs[an], Ys[an])
    if post.degenerate or not post.sigma2 > 0:
      if scen == 'trt_always_on' and metric == 'tbr_cost' and float(np.var(Ys[pre])) > 0:
        # constant control series: the closed form does not apply; the report is still compared with the library's
        # own posterior (tbr.py) - the statement's "quantiles of the TBR posterior"
        lib_only = True
        post = None
      else:
        return {'viol': [], 'nt': False, 'cls': ['degenerate'], 'dc': 1}
  alpha = (1 - spec['level']) / spec['tails']
  det = {'metric': metric, 'scenario': scen, 'n_pre': fs['n_pre'], 'n_test': fs['n_test'], 'n_cool': fs['n_cool'],
         'level': spec['level'], 'tails': spec['tails'], 'unassigned_periods': un_periods}
  if lib_only:
    det['scale_decreases'] = None
  if post is not None:
    # "decreases" includes "stays level": s_t == s_{t-1} makes the differenced quantiles equal to the estimate up to rounding
    det['scale_decreases'] = bool((np.diff(post.scale) <= 1e-9 * post.scale[:-1]).any())
    if det['scale_decreases']:
      cls.append('posterior-scale-decreases')
  dates3 = [d for d, k in zip(truth['dates'], in3) if k]
  dates_an = [d for d, k in zip(truth['dates'], an) if k]
  df_in = df.copy(deep=True) if spec.get('scribble') else df
  try:
    if spec.get('refit'):
      other = dict(fs, cost=dict(fs['cost'], scenario='variable' if scen == 'fixed' else 'fixed'), n_pre=fs['n_pre'] + 1,
                   factor=fs['factor'] + [2], noise=[e + [9] for e in fs['noise']])
      other['cost']['cnoise'] = [e + [1] for e in fs['cost']['cnoise']]
      df_o, kw_o, _ = frames.materialise(other)
      m = c07.fit_model(df_o, kw_o, True)
      try:
        m.estimate_pointwise_and_cumulative_effect(metric=metric, level=0.8, tails=2)
        m.summary(random_state=1, nsims=50)
      except Exception:  # pylint: disable=broad-except
        pass
      m.fit(df_in, **kwargs)
      cls.append('refit')
    else:
      m = c07.fit_model(df_in, kwargs, True)
    if spec.get('scribble'):
      # the caller keeps editing its own frame after fit() and before the first report
      if not df_in.equals(df):
        viol.append(('C18:input-frame-modified', det))
      frames.scribble(df_in, truth['names'])
      cls.append('caller-edits-frame-after-fit')
    if spec.get('summary_first'):
      # the iROAS summary is read before the effect series are asked for (same fitted object)
      try:
        m.summary(level=0.8, tails=2, nsims=50, random_state=3)
      except Exception:  # pylint: disable=broad-except
        pass
      cls.append('summary-read-first')
    ts = m.estimate_pointwise_and_cumulative_effect(metric=metric, level=spec['level'], tails=spec['tails'])
  except Exception as e:  # pylint: disable=broad-except
    kind = core.crash_kind('C18', e)
    if lib_only:
      # constant control series: no closed form; F12's predicate is evaluated on the library's own posterior scale
      try:
        sc_l = np.asarray((m.tbr_cost if metric == 'tbr_cost' else m.tbr_response).causal_cumulative_distribution().kwds['scale'], float)
        det['scale_decreases'] = bool((np.diff(sc_l) <= 1e-9 * sc_l[:-1]).any())
      except Exception:  # pylint: disable=broad-except
        pass
    return {'viol': [(kind, dict(det, exc=str(e)[:200]))], 'nt': True, 'cls': cls + ['raised'], 'dc': 0}
  try:
    cf, pw, cu = ts.counterfactual, ts.pointwise_difference, ts.cumulative_effect
    if abs(spec['level'] - 0.9) < 1e-12 and spec['tails'] == 1:
      # documented defaults: level=0.9, tails=1
      ts_d = m.estimate_pointwise_and_cumulative_effect(metric=metric)
      for a_, b_ in ((ts_d.counterfactual, cf), (ts_d.pointwise_difference, pw), (ts_d.cumulative_effect, cu)):
        if not all(util.deep_eq(np.asarray(a_[c], float), np.asarray(b_[c], float), 1e-12) for c in ('lower', 'estimate', 'upper')):
          viol.append(('C18:defaults', det))
          break
      cls.append('defaults-checked')
    for name, fr, want_dates in (('counterfactual', cf, dates3), ('pointwise', pw, dates3), ('cumulative', cu, dates_an)):
      got_dates = [str(x)[:10] for x in fr['date'].tolist()]
      if got_dates != [str(x)[:10] for x in want_dates]:
        viol.append(('C18:%s:dates' % name, dict(det, got=len(got_dates), want=len(want_dates))))
        continue
      lo, es, up = (np.asarray(fr[c], float) for c in ('lower', 'estimate', 'upper'))
      if np.isnan(lo).any() or np.isnan(es).any() or np.isnan(up).any():
        viol.append(('C18:%s:nan' % name, det))
      elif not ((lo <= es).all() and (es <= up).all()):
        viol.append(('C18:%s:bounds-order' % name, det))
    if lib_only:
      cls.append('constant-control-series')
      mdl = m.tbr_cost if metric == 'tbr_cost' else m.tbr_response
      d = mdl.causal_cumulative_distribution()
      lo_l, up_l = np.asarray(d.ppf(alpha), float), np.asarray(d.ppf(1 - alpha), float)
      if np.all(np.diff(np.asarray(d.kwds['scale'], float)) >= 0):
        tol = 1e-9 * float(np.max(np.abs(d.kwds['scale']))) + 1e-12
        if not (util.deep_eq(np.asarray(cu['lower'], float), lo_l, 1e-9, tol) and util.deep_eq(np.asarray(cu['upper'], float), up_l, 1e-9, tol)
                and util.deep_eq(np.asarray(cu['estimate'], float), np.asarray(d.kwds['loc'], float), 1e-9, tol)):
          viol.append(('C18:cumulative-vs-library-posterior', dict(det, got=[float(np.asarray(cu['lower'], float)[-1]), float(np.asarray(cu['upper'], float)[-1])],
                                                                  want=[float(lo_l[-1]), float(up_l[-1])])))
      return {'viol': viol[:4], 'nt': fs['n_pre'] >= 4 and int(an.sum()) >= 2, 'cls': cls, 'dc': 0}
    if not viol:
      obs = Ys[in3]
      sc = float(np.max(np.abs(obs))) + 1e-300
      cfe, pwe = np.asarray(cf['estimate'], float), np.asarray(pw['estimate'], float)
      if not util.deep_eq(cfe + pwe, obs, 1e-9, 1e-9 * sc):
        viol.append(('C18:counterfactual-plus-pointwise', det))
      if fixed_cost_metric:
        if not (util.deep_eq(cfe, np.zeros(len(cfe)), 0, 0) and util.deep_eq(pwe, obs, 1e-12)):
          viol.append(('C18:fixed-cost-series', det))
        cum = np.cumsum(Ys[an])
        if not util.deep_eq(np.asarray(cu['estimate'], float), cum, 1e-9, 1e-9 * sc):
          viol.append(('C18:fixed-cost-cumulative', det))
      else:
        n_pre = int(pre.sum())
        tol = 1e-7 * max(float(np.max(post.scale)), 1e-300)
        if not util.deep_eq(pwe[:n_pre], post.resid, 1e-7, tol):
          viol.append(('C18:pre-period-residuals', det))
        if not util.deep_eq(pwe[n_pre:], post.effect, 1e-7, tol):
          viol.append(('C18:pointwise-effect', det))
        if not util.deep_eq(cfe[:n_pre], post.predict(Xs[pre]), 1e-7, tol) or not util.deep_eq(cfe[n_pre:], post.predict(Xs[an]), 1e-7, tol):
          viol.append(('C18:counterfactual', det))
        last = {c: float(np.asarray(cu[c], float)[-1]) for c in ('lower', 'estimate', 'upper')}
        want = {'estimate': float(post.loc[-1]), 'lower': float(post.quantile(alpha)[-1]), 'upper': float(post.quantile(1 - alpha)[-1])}
        for c in want:
          if not util.close(last[c], want[c], 1e-7, tol):
            viol.append(('C18:cumulative-last:%s' % c, dict(det, got=last[c], want=want[c])))
        if not util.deep_eq(np.asarray(cu['estimate'], float), post.loc, 1e-7, tol):
          viol.append(('C18:cumulative-estimate', det))
  except Exception as e:  # pylint: disable=broad-except
    viol.append(('C18:malformed-result:%s' % type(e).__name__, dict(det, exc=str(e)[:200])))
  nt = fs['n_pre'] >= 4 and int(an.sum()) >= 2
  return {'viol': viol[:4], 'nt': nt, 'cls': cls, 'dc': 0}
