"""C13 - the greedy search never beats the exhaustive optimum and stays inside the feasible set."""
from hypothesis import strategies as st

from vmm.gen import search as G
from vmm.props import c03
from vmm.ref import searchlib as L

ID = 'C13'
RULE = ('Hypothesis panel x eligibility x parameters without budget and treatment-share constraints (the premise), size / '
        'geo-ratio / volume-ratio constraints w.p. ~0.45, n_geos_max, n_pretest_max; <=6 geos quick / <=8 thorough; a quarter of the cases pin group sizes (<=8 geos, mostly fixed) exactly on the geo-ratio boundary (2:3, 3:4, 3:5, ... with tolerance (l-s)/s). Every greedy '
        'design must lie in the brute-force feasible set (legal over the admitted geos and inside all constraints, band '
        'accepted); best greedy score <= best exhaustive score (1e-9 slack on the last entry); exhaustive [] => greedy []. '
        'Non-trivial = greedy returns >=1 design and (eligibility table non-trivial or a constraint specified); distinct by spec hash.')
BUDGET = {'quick': 640, 'thorough': 16000}
FLOOR = {'quick': 60, 'thorough': 1500}
ROUNDS = {'quick': 2, 'thorough': 4}
ASSUMPTIONS = ['feasible set computed by the oracle, not taken from the exhaustive search output', 'ValueError from either search is an accepted outcome (C09)']


def _shared_capped(spec):
  """A capped searcher whose data object is also used by an uncapped one between its searches."""
  spec['history'] = 'shared-data'
  if spec['params'].get('n_geos_max') is None:
    spec['params']['n_geos_max'] = max(2, len(spec['panel']['ids']) - 1)
  return spec


def strategy(tier):
  big = 6 if tier == 'quick' else 8
  kw = dict(allow_budget=False, allow_share=False)
  return st.one_of(G.search_spec(max_geos=big, min_geos=2, constraint_p=0.45, **kw),
                   G.search_spec(max_geos=big, min_geos=3, constraint_p=0.3, elig_style='mixed', **kw),
                   G.search_spec(max_geos=big, min_geos=3, constraint_p=0.3, elig_style='fixed-heavy', **kw),
                   G.ratio_boundary_spec(max_geos=8),
                   G.search_spec(max_geos=big, min_geos=3, constraint_p=0.25, **kw).map(G.shared_capped))


def run(spec):
  case = L.materialise(spec)
  sp = case.space
  cls = ['geos:%d' % len(sp.geos)]
  if spec['elig'] and spec['elig'].get('style') == 'ratio-boundary':
    cls.append('ratio-boundary')
  det = L.describe(case)
  viol = []
  ex = L.run_search(case, 'exhaustive_search', history=spec.get('history'))
  gr = L.run_search(case, 'greedy_search', history=spec.get('history'))
  cls += ['exhaustive:%s' % (ex[0] if ex[0] != 'ok' else ('designs' if ex[1] else 'empty')),
          'greedy:%s' % (gr[0] if gr[0] != 'ok' else ('designs' if gr[1] else 'empty'))]
  if gr[0] != 'ok' or sp.reject:
    return {'viol': [], 'nt': False, 'cls': cls, 'dc': 0}
  grecs = gr[1]
  if sp.adm_uncertain:
    return {'viol': [], 'nt': False, 'cls': cls + ['admitted-set-uncertain'], 'dc': 1}
  an = c03.analyse(sp)
  F = set(an['f_union'])
  for pos, r in enumerate(grecs):
    if (r['T'], r['C']) not in F:
      viol.append(('C13:greedy-design-not-feasible', dict(det, T=sorted(r['T']), C=sorted(r['C']), pos=pos, legal=sp.legal(r['T'], r['C']),
                                                          sizes=sp.check_sizes(r['T'], r['C']) if r['T'] and r['C'] else None,
                                                          ratio=sp.check_geo_ratio(r['T'], r['C']) if r['T'] and r['C'] else None,
                                                          volume=sp.check_volume(r['T'], r['C']) if r['T'] and r['C'] else None,
                                                          admitted=sorted(sp.adm))))
  if ex[0] == 'ok':
    if not ex[1] and grecs:
      viol.append(('C13:greedy-finds-where-exhaustive-finds-nothing', dict(det, T=sorted(grecs[0]['T']), C=sorted(grecs[0]['C']))))
    if ex[1] and grecs:
      best_g = max((r['score'] for r in grecs), key=lambda s: tuple(s))
      best_e = ex[1][0]['score']
      if c03.gt(best_g, best_e):
        viol.append(('C13:greedy-beats-exhaustive', dict(det, greedy=[float(t) for t in best_g], exhaustive=[float(t) for t in best_e])))
  types = {r for r in sp.elig.values() if r != (1, 1, 1)}
  constrained = any(k in case.kwargs for k in ('treatment_geos_range', 'control_geos_range', 'geo_ratio_tolerance', 'volume_ratio_tolerance', 'n_geos_max'))
  nt = len(grecs) >= 1 and (bool(types) or constrained)
  return {'viol': viol[:4], 'nt': nt, 'cls': cls, 'dc': 0}
