"""C01 - returned designs are legal assignments under the geo eligibility matrix."""
from hypothesis import strategies as st

from vmm.gen import search as G
from vmm.ref import searchlib as L

ID = 'C01'
RULE = ('Hypothesis panel x eligibility table x parameter object (all six constraint kinds, n_geos_max, n_pretest_max, data-aware '
        'share/budget ranges), <=6 geos quick / <=8 thorough, both searches on fresh objects (plus the object-reuse histories of section 10 and a flavour with one large non-excludable geo and a volume-ratio tolerance); every returned design checked '
        'against the raw table and frame. Non-trivial = table present with >=2 distinct non-free row types among geos in the '
        'data and >=1 design returned; distinct by spec hash.')
BUDGET = {'quick': 640, 'thorough': 16000}
FLOOR = {'quick': 60, 'thorough': 1500}
ROUNDS = {'quick': 2, 'thorough': 4}
ASSUMPTIONS = ['a ValueError from construction or search is an accepted outcome here (C09 decides crashes)']


@st.composite
def _big_fixed_geo(draw, big):
  """A large geo that may not be excluded (fixed to control, or control-or-treatment) next to small ones, with a volume
  ratio tolerance: the large geo does not fit beside a small treatment group, yet it has to be in every design."""
  spec = draw(G.search_spec(max_geos=big, min_geos=4, constraint_p=0.15, allow_budget=False, allow_share=False, elig_style='free'))
  panel, params = spec['panel'], spec['params']
  n = len(panel['ids'])
  panel['level'] = [32] + [draw(st.sampled_from([1, 2, 4, 4, 8])) for _ in range(n - 1)]
  panel['early'], panel['flat'] = [1] * n, []
  rows = [[panel['ids'][0]] + list(draw(st.sampled_from([(1, 0, 0), (1, 1, 0)])))]
  rows += [[g] + list(draw(st.sampled_from([(1, 1, 1), (1, 1, 1), (0, 1, 1), (1, 0, 1), (1, 1, 0)]))) for g in panel['ids'][1:]]
  spec['elig'] = dict(spec['elig'] or {'as_index': False, 'col_order': None, 'row_labels': None}, rows=rows, style='big-fixed-geo')
  params['volume_ratio_tolerance'] = draw(st.sampled_from([0.25, 0.5, 1.0, 2.0]))
  params['n_geos_max'] = None
  spec['history'] = None
  return spec


def strategy(tier):
  big = 6 if tier == 'quick' else 8
  return st.one_of(_big_fixed_geo(big),
                   G.search_spec(max_geos=big, min_geos=4, constraint_p=0.2, elig_style='mixed').map(G.shared_capped),
                   G.search_spec(max_geos=big, min_geos=2, constraint_p=0.4, flat=True),
                   G.search_spec(max_geos=big, min_geos=3, constraint_p=0.2, elig_style='fixed-heavy', flat=True),
                   G.search_spec(max_geos=big, min_geos=3, constraint_p=0.25, elig_style='mixed'),
                   G.search_spec(max_geos=big, min_geos=3, constraint_p=0.3, elig_style='fixed-heavy'))


def run(spec):
  case = L.materialise(spec)
  sp = case.space
  viol = []
  cls = ['history:%s' % spec.get('history'), 'geos:%d' % len(sp.geos), 'elig:%s' % (spec['elig']['style'] if spec['elig'] else 'none')]
  det = L.describe(case)
  n_designs = 0
  for method in ('exhaustive_search', 'greedy_search'):
    res = L.run_search(case, method, history=spec.get('history'))
    tag = method.split('_')[0]
    if res[0] != 'ok':
      cls.append('%s:%s' % (tag, res[0]))
      continue
    recs, mm = res[1], res[2]
    cls.append('%s:%s' % (tag, 'designs' if recs else 'empty'))
    n_designs += len(recs)
    must = sp.must & set(sp.geos)
    if sp.reject and recs:
      # the table lists a geo that may not be excluded but has no rows in the panel: no design can place it
      viol.append(('C01:%s:must-include-missing' % tag, dict(det, pos=0, note='a non-excludable geo of the table is absent from the data, yet designs are returned',
                                                             T=sorted(recs[0]['T']), C=sorted(recs[0]['C']))))
    for pos, r in enumerate(recs):
      probs = sp.legal(r['T'], r['C'])
      missing = sorted(must - (r['T'] | r['C']))
      if missing:
        probs.append('must-include-missing')
      for pb in sorted(set(probs)):
        viol.append(('C01:%s:%s' % (tag, pb), dict(det, T=sorted(r['T']), C=sorted(r['C']), pos=pos, missing=missing)))
    # on the object
    try:
      gwc = {str(g) for g in mm.geos_within_constraints}
      if not must <= gwc:
        viol.append(('C01:admitted-set-misses-must-include', dict(det, admitted=sorted(gwc), must=sorted(must))))
      if gwc & sp.x_fixed:
        viol.append(('C01:admitted-set-has-must-exclude', dict(det, admitted=sorted(gwc))))
      if not gwc <= set(sp.geos):
        viol.append(('C01:admitted-set-not-in-data', dict(det, admitted=sorted(gwc))))
    except Exception as e:  # pylint: disable=broad-except
      from vmm import core
      viol.append((core.crash_kind('C01', e), dict(det, exc=str(e)[:200])))
  if spec['panel'].get('flat'):
    cls.append('flat-geo')
  if sp.par.n_geos_max is not None and len(sp.adm_before_cap) > sp.par.n_geos_max:
    cls.append('n_geos_max-bites')
    if sp.cap_cuts_must:
      cls.append('cap-vs-must-include')
  types = {r for g, r in sp.elig.items() if r != (1, 1, 1)}
  nt = spec['elig'] is not None and len(types) >= 2 and n_designs >= 1
  return {'viol': viol[:4], 'nt': nt, 'cls': cls, 'dc': 0}
