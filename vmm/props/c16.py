"""C16 - eligibility tables are validated and partitioned correctly.

Enumeration of all tables over the 8 row types (<=3 rows quick, <=4 thorough) in presentation variants,
malformed mutations, all ordered non-empty subsets; Hypothesis samples larger tables.
Oracle: acceptance predicate + class-of-row table + positional indices (R2).
"""
import itertools

from hypothesis import strategies as st

ID = 'C16'
RULE = ('(a) exhaustive: every table of 1..3 (quick) / 1..4 (thorough) rows over the 8 possible rows, in presentation '
        'variants (geo column/index, int/str IDs, int/float/bool and pandas-nullable Int64/boolean/Float64 cells, extra (partly empty) column, value columns in any order, non-default row labels when geo is a column), each accepted table queried with '
        'every non-empty ordered subset of its geos x indices in {False, True} and with None (for half of the tables through ONE list object edited in place between consecutive queries); every single malformed '
        'mutation (column dropped, geo absent, duplicate ID incl. 1 vs "1" and two missing IDs, cell in {2,-1,0.5,NaN,None,"1",<NA> in a nullable column}, duplicated '
        'value column) of a legal table; (b) Hypothesis: tables up to 10 rows with drawn subsets and mutations. '
        'Non-trivial = accepted table with >=2 distinct row types and >=3 rows (so proper reordered subsets exist) or a '
        'table carrying a malformed mutation or an all-zero row; distinct by spec hash.')
BUDGET = {'quick': 1600, 'thorough': 50000}
FLOOR = {'quick': 500, 'thorough': 5000}
EXHAUSTIVE = {'quick': 'all tables with <=3 rows over the 8 row types x 12 presentation variants x all ordered subsets; all single mutations of <=2-row legal tables',
              'thorough': 'all tables with <=4 rows (4-row tables: one presentation variant each, round-robin) x all ordered subsets; all single mutations of <=3-row legal tables'}
ASSUMPTIONS = ['the empty ordered subset is excluded: the docstring defines only None ("all geos")',
               'geos passed to get_eligible_assignments are string IDs (what TBRMMData passes)']

ROWS8 = [(0, 0, 0), (0, 0, 1), (0, 1, 0), (0, 1, 1), (1, 0, 0), (1, 0, 1), (1, 1, 0), (1, 1, 1)]
CLASS_OF = {(1, 0, 0): 'c_fixed', (0, 1, 0): 't_fixed', (0, 0, 1): 'x_fixed', (1, 1, 0): 'ct', (1, 0, 1): 'cx',
            (1, 1, 1): 'ctx', (0, 1, 1): 'tx'}
SEVEN = ['c_fixed', 't_fixed', 'x_fixed', 'ct', 'cx', 'ctx', 'tx']
ID_POOL = ['10', '2', '33', '4', '105', '6', '77', '8', '9', '1']   # string order != numeric order
NAME_POOL = ['b', 'a', 'geo z', 'C', '10', 'x1', 'NY', '2', 'la', 'q']
VARIANTS = [(g, d, c) for g in ('column', 'index') for d in ('str', 'int') for c in ('int', 'float', 'bool')] + \
    [('column', 'str', 'Int64'), ('index', 'int', 'boolean'), ('column', 'int', 'Float64')]
CELL_BAD = ['2', '-1', '0.5', 'nan', 'none', 'str1', 'NA-Int64', 'NA-boolean', 'NA-Float64']
VALUE_COLS = ['control', 'treatment', 'exclude']


def _mutations(n_rows):
  muts = [{'kind': 'dropcol', 'col': c} for c in ['geo'] + VALUE_COLS]
  muts += [{'kind': 'dupcol', 'col': c} for c in VALUE_COLS]
  for i in range(n_rows):
    for c in VALUE_COLS:
      for v in CELL_BAD:
        muts.append({'kind': 'cell', 'i': i, 'col': c, 'val': v})
  if n_rows >= 2:
    muts.append({'kind': 'missingid', 'i': 0, 'j': n_rows - 1, 'val': 'none'})
    muts.append({'kind': 'missingid', 'i': 0, 'j': n_rows - 1, 'val': 'nan'})
    muts.append({'kind': 'dupid', 'i': 0, 'j': n_rows - 1, 'mixed': False})
    muts.append({'kind': 'dupid', 'i': 0, 'j': n_rows - 1, 'mixed': True})
  return muts


def enumerate_cases(tier):
  max_rows = 3 if tier == 'quick' else 4
  k = 0
  for n in range(1, max_rows + 1):
    for combo in itertools.product(range(8), repeat=n):
      rows = [[ID_POOL[i]] + list(ROWS8[r]) for i, r in zip(range(n), combo)]
      variants = VARIANTS if n <= 3 else [VARIANTS[k % len(VARIANTS)]]
      k += 1
      for (g, d, c) in variants:
        yield {'rows': rows, 'geo_as': g, 'id_dtype': d, 'cell': c, 'extra_col': (k % 3 == 0), 'mut': None, 'subsets': 'all',
               'col_order': [None, ['treatment', 'control', 'exclude'], ['exclude', 'treatment', 'control'], ['control', 'exclude', 'treatment']][k % 4],
               'row_labels': [None, 'reversed', 'gaps', 'repeated', 'strings'][k % 5]}
  # single mutations of legal tables
  for n in range(1, max_rows):
    for combo in itertools.product(range(1, 8), repeat=n):
      rows = [[ID_POOL[i]] + list(ROWS8[r]) for i, r in zip(range(n), combo)]
      for j, m in enumerate(_mutations(n)):
        g, d, c = VARIANTS[(j + sum(combo)) % len(VARIANTS)]
        if m['kind'] == 'cell' and c in ('bool', 'Int64', 'boolean', 'Float64'):
          c = 'int'
        yield {'rows': rows, 'geo_as': g, 'id_dtype': d, 'cell': c, 'extra_col': False, 'mut': m, 'subsets': 'all'}


@st.composite
def _spec(draw):
  n = draw(st.integers(1, 10))
  id_dtype = draw(st.sampled_from(['str', 'int', 'name']))
  pool = NAME_POOL if id_dtype == 'name' else ID_POOL
  ids = draw(st.permutations(pool))[:n]
  weights = [0, 1, 2, 3, 4, 5, 6, 7, 7, 7, 5, 3, 6, 1, 2, 4] if draw(st.integers(0, 4)) == 0 else [1, 2, 3, 4, 5, 6, 7, 7, 7, 5, 3, 6]
  rows = [[ids[i]] + list(ROWS8[draw(st.sampled_from(weights))]) for i in range(n)]
  mut = None
  if draw(st.integers(0, 4)) == 0:
    muts = _mutations(n)
    mut = muts[draw(st.integers(0, len(muts) - 1))]
  cell = draw(st.sampled_from(['int', 'float', 'bool', 'Int64', 'boolean', 'Float64']))
  if mut is not None and mut['kind'] == 'cell' and cell in ('bool', 'Int64', 'boolean', 'Float64'):
    cell = 'int'
  subsets = []
  for _ in range(draw(st.integers(1, 4))):
    sub = draw(st.permutations(ids))
    m = draw(st.integers(1, n))
    subsets.append(list(sub[:m]))
  return {'rows': rows, 'geo_as': draw(st.sampled_from(['column', 'index'])),
          'id_dtype': 'str' if id_dtype == 'name' else id_dtype, 'cell': cell,
          'extra_col': draw(st.booleans()), 'mut': mut, 'subsets': subsets,
          'col_order': list(draw(st.permutations(['control', 'treatment', 'exclude']))) if draw(st.booleans()) else None,
          'row_labels': draw(st.sampled_from([None, None, 'reversed', 'gaps', 'repeated', 'strings']))}


def strategy(tier):
  return _spec()


def build_frame(spec):
  import numpy as np
  import pandas as pd
  rows = spec['rows']
  ids = [r[0] for r in rows]
  if spec['id_dtype'] == 'int' and all(i.isdigit() for i in ids):
    ids = [int(i) for i in ids]
  conv = {'int': int, 'float': float, 'bool': bool, 'Int64': int, 'boolean': bool, 'Float64': float}[spec['cell']]
  cols = {'geo': list(ids)}
  for j, c in enumerate(VALUE_COLS):
    cols[c] = [conv(r[1 + j]) for r in rows]
  mut = spec.get('mut')
  if mut and mut['kind'] == 'dupid':
    ids2 = list(cols['geo'])
    ids2[mut['j']] = ids2[mut['i']]
    if mut['mixed']:
      v = ids2[mut['i']]
      ids2[mut['j']] = str(v) if not isinstance(v, str) else (int(v) if v.isdigit() else v)
    cols['geo'] = ids2
  if mut and mut['kind'] == 'missingid':
    # two rows without a geo ID: the IDs are not unique
    ids2 = list(cols['geo'])
    ids2[mut['i']] = ids2[mut['j']] = (None if mut['val'] == 'none' else float('nan'))
    cols['geo'] = ids2
  nullable = {}
  if mut and mut['kind'] == 'cell':
    if mut['val'].startswith('NA-'):
      # a missing code in a pandas nullable (extension dtype) column
      val = pd.NA
      nullable[mut['col']] = mut['val'][3:]
    else:
      val = {'2': 2, '-1': -1, '0.5': 0.5, 'nan': float('nan'), 'none': None, 'str1': '1'}[mut['val']]
    lst = list(cols[mut['col']])
    lst[mut['i']] = val
    cols[mut['col']] = lst
  df = pd.DataFrame({k: pd.Series(v, dtype=object) if (mut and mut['kind'] in ('cell', 'dupid', 'missingid') and k in (mut.get('col'), 'geo')
                                                       and any(isinstance(x, str) or x is None for x in v)
                                                       and any(not isinstance(x, str) for x in v)) else v
                     for k, v in cols.items()})
  for col, dt in nullable.items():
    df[col] = pd.array([(None if v is pd.NA else (bool(v) if dt == 'boolean' else v)) for v in cols[col]], dtype=dt)
  if spec['cell'] in ('Int64', 'boolean', 'Float64'):
    for col in VALUE_COLS:
      if col in df.columns and col not in nullable and not (mut and mut['kind'] == 'cell' and mut['col'] == col):
        df[col] = pd.array(list(df[col]), dtype=spec['cell'])
  if spec.get('extra_col'):
    # a column the class does not need (free text, partly empty)
    df['note'] = [('n' if (i + len(df)) % 3 else None) for i in range(len(df))]
  if spec.get('col_order'):
    # value columns in another order (columns are labelled: their position must not matter)
    cols_now = [c for c in df.columns]
    order = [c for c in spec['col_order'] if c in cols_now]
    rest = [c for c in cols_now if c not in order]
    df = df[rest[:1] + order + rest[1:]] if len(set(cols_now)) == len(cols_now) else df
  if mut and mut['kind'] == 'dupcol':
    df = pd.concat([df, df[[mut['col']]]], axis=1)
  if mut and mut['kind'] == 'dropcol' and mut['col'] != 'geo':
    df = df.drop(columns=[mut['col']])
  rl = spec.get('row_labels')
  if rl and spec['geo_as'] == 'column' and len(df):
    # geo is a column and the frame carries its own row labels (kept after sorting / filtering / concatenating)
    n = len(df)
    df.index = {'reversed': list(range(n - 1, -1, -1)), 'gaps': [3 * i + 2 for i in range(n)], 'repeated': [i // 2 for i in range(n)],
                'strings': ['r%d' % ((i * 7) % 11) for i in range(n)]}[rl][:n]
  if spec['geo_as'] == 'index':
    df = df.set_index('geo')
    if mut and mut['kind'] == 'dropcol' and mut['col'] == 'geo':
      df.index.name = None
  elif mut and mut['kind'] == 'dropcol' and mut['col'] == 'geo':
    df = df.drop(columns=['geo'])
  return df


def run(spec):
  from matched_markets.methodology import geoeligibility
  from vmm import core
  rows = spec['rows']
  mut = spec.get('mut')
  has_zero = any(tuple(r[1:]) == (0, 0, 0) for r in rows)
  want_accept = (mut is None) and not has_zero
  viol = []
  cls = ['rows:%d' % len(rows), 'variant:%s/%s/%s' % (spec['geo_as'], spec['id_dtype'], spec['cell'])]
  df = build_frame(spec)
  before = df.copy(deep=True)
  try:
    obj = geoeligibility.GeoEligibility(df)
    got = 'accepted'
  except ValueError as e:
    got = 'ValueError'
    msg = str(e)[:100]
  except Exception as e:  # pylint: disable=broad-except
    got = 'other'
    viol.append((core.crash_kind('C16', e), {'rows': rows, 'mut': mut, 'exc': str(e)[:150]}))
  if mut:
    cls.append('mut:' + mut['kind'] + (':' + mut['val'] if mut['kind'] == 'cell' else ''))
  cls.append('expect:' + ('accept' if want_accept else 'reject'))
  if got == 'accepted' and not want_accept:
    viol.append(('C16:invalid-table-accepted', {'rows': rows, 'mut': mut}))
  if got == 'ValueError' and want_accept:
    viol.append(('C16:valid-table-rejected', {'rows': rows, 'variant': cls[1], 'msg': msg}))
  try:
    if not df.equals(before):
      viol.append(('C16:input-frame-modified', {'rows': rows}))
  except Exception:  # pylint: disable=broad-except
    pass
  distinct_types = len({tuple(r[1:]) for r in rows})
  nt = bool(mut) or has_zero
  if got == 'accepted' and want_accept:
    ids = [str(r[0]) for r in rows]
    flags = {str(r[0]): tuple(r[1:]) for r in rows}
    # .data indexed by string ID in row order, values preserved
    data = obj.data
    if list(data.index) != ids or list(data.columns) != VALUE_COLS:
      viol.append(('C16:data-index', {'index': list(map(str, data.index)), 'want': ids, 'cols': list(data.columns)}))
    else:
      for g in ids:
        if tuple(int(v) for v in data.loc[g]) != flags[g]:
          viol.append(('C16:data-values', {'geo': g}))
          break
    if spec['subsets'] == 'all':
      subsets = [None]
      for m in range(1, len(ids) + 1):
        subsets += [list(p) for p in itertools.permutations(ids, m)]
    else:
      subsets = [None] + [list(s) for s in spec['subsets']]
    queries = [(sub, indices) for sub in subsets for indices in ((False, True) if sub is not None else (False,))]
    reuse = (len(rows) + sum(sum(r[1:]) for r in rows)) % 2 == 1
    if reuse:
      # the caller keeps ONE list object and edits it in place between consecutive queries with the same flag
      queries.sort(key=lambda q: (q[0] is None, q[1]))
      cls.append('list-object-reused')
    work = []
    for sub, indices in queries:
        if reuse and sub is not None:
          work[:] = sub
          sub = work
        L = ids if sub is None else list(sub)
        try:
          a = obj.get_eligible_assignments(sub, indices=indices) if sub is not None else obj.get_eligible_assignments()
        except Exception as e:  # pylint: disable=broad-except
          viol.append((core.crash_kind('C16', e), {'rows': rows, 'subset': None if sub is None else list(sub), 'indices': indices, 'exc': str(e)[:150]}))
          continue
        ref = (lambda i, g: i) if indices else (lambda i, g: g)
        want = {k: set() for k in SEVEN}
        wc, wt, wx = set(), set(), set()
        for i, g in enumerate(L):
          f = flags[g]
          want[CLASS_OF[f]].add(ref(i, g))
          if f[0]:
            wc.add(ref(i, g))
          if f[1]:
            wt.add(ref(i, g))
          if f[2]:
            wx.add(ref(i, g))
        got_classes = {k: set(getattr(a, k)) for k in SEVEN}
        det = {'rows': rows, 'subset': None if sub is None else list(sub), 'indices': indices, 'list_object_reused': reuse}
        union = set().union(*got_classes.values())
        total = sum(len(v) for v in got_classes.values())
        if total != len(union):
          viol.append(('C16:classes-overlap', det))
        if union != set(a.all) or set(a.all) != {ref(i, g) for i, g in enumerate(L)}:
          viol.append(('C16:classes-do-not-cover', dict(det, all=sorted(map(str, a.all)))))
        if got_classes != want:
          bad = [k for k in SEVEN if got_classes[k] != want[k]]
          viol.append(('C16:wrong-class', dict(det, classes=bad)))
        if set(a.c) != wc or set(a.t) != wt or set(a.x) != wx:
          viol.append(('C16:wrong-flags', det))
        if len(viol) > 3:
          break
    if distinct_types >= 2 and len(rows) >= 3:
      nt = True
  return {'viol': viol[:4], 'nt': nt, 'cls': cls, 'dc': 0}
