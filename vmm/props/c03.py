"""C03 - the exhaustive search returns the best-scoring feasible designs, best first.

Oracle: brute-force enumeration of the whole legal space over the admitted geos (R3, R6), the feasible sets
F-union / F-intersection under the two documented readings of the treatment share (R7), the allowed-pruning set P,
and independent scores (R5). Top-k dominance is checked on the complement of the output.
"""
import itertools

from hypothesis import strategies as st

from vmm import util
from vmm.gen import search as G
from vmm.ref import diag as R
from vmm.ref import searchlib as L

ID = 'C03'
RULE = ('Hypothesis panel x eligibility x parameters (as C02), n_designs in {1,2,3,5,10,50,10^4}, <=6 geos quick / <=8 thorough, plus a flavour with 9-11 geos of which 2-3 may be treated and the rest are control-only; '
        'for every case the full legal space over the admitted geos is enumerated (3^n assignments), constraints and scores '
        'recomputed independently, and the returned list is checked for distinctness, feasibility, score equality, length, '
        'completeness (when fewer than k) and top-k dominance over every omitted feasible design outside the allowed-pruning set. '
        'Non-trivial = >=1 feasible design and (more feasible designs than k, or pruning set non-empty, or some legal design '
        'infeasible); distinct by spec hash.')
BUDGET = {'quick': 480, 'thorough': 8000}
FLOOR = {'quick': 60, 'thorough': 1200}
ROUNDS = {'quick': 2, 'thorough': 4}
ASSUMPTIONS = ['candidates or cut-off designs with a fragile discrete score entry (statistic within 1e-9 of its threshold) create no obligation',
               'real-valued constraint bounds: designs inside the 1e-9 band may be returned but need not be',
               'obligations are skipped when the admitted set itself is uncertain (a share/impact within 1e-9 of an admission bound)']


@st.composite
def _offsetting(draw, big):
  """Flavour for the pruning clause: two non-excludable, treatment-eligible geos of equal size and opposite phase, so that
  each alone has a large optimistic budget while the pair (a group sum with a much smaller spread) is cheap; the budget
  range is drawn from the low quantiles. Singletons are then often not admissible treatment groups."""
  spec = draw(G.search_spec(max_geos=big, min_geos=4, constraint_p=0.2, allow_share=False, elig_style='free'))
  panel, params = spec['panel'], spec['params']
  lv = draw(st.sampled_from([4, 8, 12, 20]))
  panel['level'][0] = panel['level'][1] = lv
  if draw(st.booleans()):
    # opposite idiosyncratic noise: each alone is noisy (expensive), the pair follows the common factor closely
    panel['sign'][0], panel['sign'][1] = 1, 1
    panel['amp'][0] = panel['amp'][1] = draw(st.sampled_from([32, 128, 128]))
    panel['noise'][1] = [-e for e in panel['noise'][0]]
    for g in range(2, len(panel['ids'])):
      panel['amp'][g] = min(panel['amp'][g], 8)
  else:
    panel['sign'][0], panel['sign'][1] = 1, -1
    panel['amp'][0] = panel['amp'][1] = draw(st.sampled_from([0, 2, 8]))
  panel['flat'] = []
  rows = spec['elig']['rows']
  by_id = {r[0]: r for r in rows}
  kinds = draw(st.sampled_from([((0, 1, 0), (0, 1, 0)), ((0, 1, 0), (1, 1, 0)), ((1, 1, 0), (1, 1, 0)), ((0, 1, 0), (0, 1, 1))]))
  for gid, k in zip(panel['ids'][:2], kinds):
    if gid in by_id:
      by_id[gid][1:] = list(k)
  params['budget_q'] = [0.0, draw(st.floats(0.05, 0.9))]
  params['share_q'] = None
  params['n_geos_max'] = None
  params['treatment_geos_range'] = draw(st.sampled_from([None, [2, 3], [2, 2], [1, 3]]))
  spec['history'] = None
  return spec


@st.composite
def _share_readings(draw, big):
  """Flavour for the two readings of the treatment share: a large geo that is not admitted to the search (must be
  excluded), so that share-of-all-data and share-of-admitted-geos differ clearly, and a share range that binds on
  both sides."""
  spec = draw(G.search_spec(max_geos=big, min_geos=4, constraint_p=0.15, allow_budget=False, elig_style='free'))
  panel, params = spec['panel'], spec['params']
  panel['level'][0] = draw(st.sampled_from([20, 32]))
  panel['flat'] = []
  spec['elig']['rows'] = [[r[0], 0, 0, 1] if r[0] == panel['ids'][0] else r for r in spec['elig']['rows']]
  lo = draw(st.floats(0.1, 0.6))
  params['share_q'] = [lo, min(1.0, lo + draw(st.floats(0.1, 0.5)))]
  params['n_geos_max'] = None
  params['edge'] = None
  spec['history'] = None
  return spec


@st.composite
def _few_treatable(draw):
  """Flavour with a realistic number of geos (9-11) of which only 2-3 may be treated (one of them among the smallest);
  the others are control-only (at most 6 of them optional), so the legal space stays enumerable. A treatment share range
  is always present."""
  n = draw(st.integers(9, 11))
  spec = draw(G.search_spec(max_geos=n, min_geos=n, constraint_p=0.15, allow_budget=False, elig_style='free', max_dates=20))
  panel, params = spec['panel'], spec['params']
  k = draw(st.integers(2, 3))
  treat = draw(st.lists(st.integers(0, n - 1), min_size=k, max_size=k, unique=True))
  for i in range(n):
    panel['level'][i] = draw(st.sampled_from([2, 4, 8, 12, 20, 32]))
  panel['level'][treat[-1]] = 1
  panel['flat'] = []
  optional = set(draw(st.lists(st.sampled_from([i for i in range(n) if i not in treat]), min_size=2, max_size=6, unique=True)))
  rows = []
  for i, gid in enumerate(panel['ids']):
    if i in treat:
      rows.append([gid] + list(draw(st.sampled_from([(0, 1, 1), (1, 1, 1), (1, 1, 1), (1, 1, 0)]))))
    else:
      rows.append([gid] + ([1, 0, 1] if i in optional else [1, 0, 0]))
  spec['elig'] = {'rows': rows, 'as_index': draw(st.booleans()), 'style': 'few-treatable', 'col_order': None, 'row_labels': None}
  params['share_q'] = sorted([draw(st.floats(0, 1)), draw(st.floats(0, 1))])
  params['budget_q'] = None
  params['n_geos_max'] = None
  params['edge'] = None
  spec['history'] = None
  return spec


@st.composite
def _loose_budget(draw, big):
  """Flavour in which a budget range is present but binds nothing (it spans all attainable budgets), iROAS is well
  away from 1 and k is small: the top-k selection has to work with the budget-scaled last score entry."""
  spec = draw(G.search_spec(max_geos=big, min_geos=4, constraint_p=0.1, allow_share=False, elig_style=draw(st.sampled_from(['none', 'free', 'mixed']))))
  params = spec['params']
  params['budget_q'] = [0.0, 1.0]
  params['edge'] = None
  params['iroas'] = draw(st.sampled_from([0.1, 0.25, 0.5, 2.0, 8.0]))
  params['n_designs'] = draw(st.sampled_from([1, 2, 3, 5]))
  params['n_geos_max'] = None
  spec['panel']['flat'] = []
  return spec


def strategy(tier):
  big = 6 if tier == 'quick' else 7
  opts = [G.search_spec(max_geos=big, min_geos=2, constraint_p=0.45),
          G.search_spec(max_geos=big, min_geos=3, constraint_p=0.3, elig_style='none'),
          G.search_spec(max_geos=big, min_geos=3, constraint_p=0.35, elig_style='mixed'),
          _offsetting(min(big, 6)), _share_readings(min(big, 6)), _few_treatable(), _loose_budget(min(big, 6))]
  if tier == 'thorough':
    opts.append(G.search_spec(max_geos=8, min_geos=8, constraint_p=0.3))
  return st.one_of(*opts)


def gt(a, b, slack=0.0):
  """Score a strictly higher than b (lexicographic, last entry with relative slack)."""
  if tuple(a[:4]) != tuple(b[:4]):
    return tuple(a[:4]) > tuple(b[:4])
  if abs(a[4] - b[4]) > 1e-12:
    return a[4] > b[4]
  return a[5] > b[5] * (1 + 1e-9 + slack) + 1e-300


def analyse(sp):
  """-> dict with legal designs, F-union, F-intersection, P (allowed omissions)."""
  par = sp.par
  legal = list(sp.legal_designs())
  f_union, f_inter = [], []
  f_all, f_adm = [], []          # feasible under one reading of the treatment share (band: no obligation)
  for T, C in legal:
    if sp.check_sizes(T, C) == 'out' or sp.check_geo_ratio(T, C) == 'out':
      continue
    vol = sp.check_volume(T, C)
    if sp.check_geo_ratio(T, C) == 'band' and vol == 'in':
      vol = 'band'               # sizes on a non-representable ratio boundary: may be kept or dropped
    rd = sp.share_readings(T)
    bud, _ = sp.check_budget(T, C)
    if vol == 'out' or bud == 'out' or (rd['all'] == 'out' and rd['admitted'] == 'out'):
      continue
    f_union.append((T, C))
    if vol == 'in' and bud == 'in' and rd['all'] == 'in' and rd['admitted'] == 'in':
      f_inter.append((T, C))
    if vol == 'in' and bud == 'in' and rd['all'] == 'in':
      f_all.append((T, C))
    if vol == 'in' and bud == 'in' and rd['admitted'] == 'in':
      f_adm.append((T, C))
  # allowed pruning
  pruned_T = {}
  if par.budget_range is not None:
    t_fixed = {g for g in sp.adm if sp.elig[g] == (0, 1, 0)}
    lo_size = max(1, len(t_fixed))
    rng = par.treatment_geos_range

    def admissible(S):
      if not t_fixed <= S or len(S) < lo_size:
        return False
      return rng is None or rng[0] <= len(S) <= rng[1]

    opt_cache = {}

    def outside(S):
      if S not in opt_cache:
        b = R.required_impact(sp.series(S), par.rho_max, par) / par.iroas if par.iroas else float('inf')
        opt_cache[S] = sp._status(b, par.budget_range[0], par.budget_range[1]) != 'in'
      return opt_cache[S]

    for T in {T for T, _ in f_all} | {T for T, _ in f_adm}:
      hit = False
      items = sorted(T)
      for m in range(len(items), 0, -1):
        for S in itertools.combinations(items, m):
          S = frozenset(S)
          if admissible(S) and outside(S):
            hit = True
            break
        if hit:
          break
      pruned_T[T] = hit
  P = [(T, C) for T, C in f_inter if pruned_T.get(T, False)]
  M = [(T, C) for T, C in f_inter if not pruned_T.get(T, False)]
  return {'legal': legal, 'f_union': f_union, 'f_inter': f_inter, 'P': P, 'M': M,
          'M_all': [d for d in f_all if not pruned_T.get(d[0], False)],
          'M_adm': [d for d in f_adm if not pruned_T.get(d[0], False)]}


def score_of(sp, T, C, cache, budget_max):
  key = (T, C)
  if key not in cache:
    d = R.diagnostics(sp.series(C), sp.series(T), sp.par)
    cache[key] = (R.score_tuple(d, budget_max), R.score_fragile(d) or d['aa'] in (None, 'nofit'), d)
  return cache[key]


WITNESS_CLASSES = ('needs-reading:all-data', 'needs-reading:admitted-geos')


def cross_case(witness):
  """An implementation may measure the treatment share against all geos in the data or against the admitted geos,
  but it must be the same reading for every input: one case whose omissions only the first reading explains and
  another that only the second explains show a search that is stricter than either."""
  a, b = (witness.get(c) for c in WITNESS_CLASSES)
  if a is not None and b is not None:
    return {'spec': {'pair': [a, b]}, 'kinds': ['C03:share-reading-inconsistent'],
            'details': [{'note': 'case 1 is consistent only with the all-data reading of treatment_share_range, case 2 only with the admitted-geos reading'}]}
  return None


def run(spec):
  if 'pair' in spec:
    outs = [run(s) for s in spec['pair']]
    needs = {c for o in outs for c in o['cls'] if c in WITNESS_CLASSES}
    viol = [v for o in outs for v in o['viol']]
    if len(needs) == 2:
      viol.append(('C03:share-reading-inconsistent', {'needs': sorted(needs)}))
    return {'viol': viol, 'nt': True, 'cls': ['pair'], 'dc': 0}
  case = L.materialise(spec)
  sp = case.space
  cls = ['geos:%d' % len(sp.geos)]
  det = L.describe(case)
  res = L.run_search(case, 'exhaustive_search', history=spec.get('history'))
  if res[0] != 'ok':
    return {'viol': [], 'nt': False, 'cls': cls + ['search:' + res[0]], 'dc': 0}
  recs, mm = res[1], res[2]
  viol = []
  dc = 0
  k = sp.par.n_designs
  try:
    gwc = {str(g) for g in mm.geos_within_constraints}
  except Exception:  # pylint: disable=broad-except
    gwc = None
  if sp.adm_uncertain:
    return {'viol': [], 'nt': False, 'cls': cls + ['admitted-set-uncertain'], 'dc': 1}
  if gwc is not None and gwc != sp.adm:
    viol.append(('C03:admitted-set', dict(det, lib=sorted(gwc), ref=sorted(sp.adm), share={g: sp.share[g] for g in sp.geos}, impact=sp.gimp)))
    return {'viol': viol, 'nt': True, 'cls': cls + ['admitted-set-differs'], 'dc': 0}
  an = analyse(sp)
  F_union = set(an['f_union'])
  M = an['M']
  bmax = sp.par.budget_range[1] if sp.par.budget_range is not None else None
  cache = {}
  cls.append('legal:%s' % ('0' if not an['legal'] else '<=50' if len(an['legal']) <= 50 else '<=500' if len(an['legal']) <= 500 else '>500'))
  cls.append('k:%d' % k)
  pairs = [(r['T'], r['C']) for r in recs]
  # (i) distinct
  if len(set(pairs)) != len(pairs):
    viol.append(('C03:duplicate-design', dict(det, n=len(pairs))))
  # (ii) feasible + score equality
  ref_scores = []
  for pos, (r, pr) in enumerate(zip(recs, pairs)):
    if pr not in F_union:
      viol.append(('C03:infeasible-design-returned', dict(det, T=sorted(pr[0]), C=sorted(pr[1]), pos=pos, legal=sp.legal(*pr))))
      ref_scores.append(None)
      continue
    sc, frag, d = score_of(sp, pr[0], pr[1], cache, bmax)
    ref_scores.append((sc, frag))
    if frag or sc is None:
      dc += 1
      continue
    got = r['score']
    cond = 2e-15 / max(1e-300, 1 - d['corr'] ** 2)
    if not (tuple(got[:4]) == tuple(sc[:4]) and util.close(got[4], sc[4], 0, 1e-12) and util.close(got[5], sc[5], 1e-9 + cond)):
      viol.append(('C03:score-differs', dict(det, T=sorted(pr[0]), C=sorted(pr[1]), lib=[float(t) for t in got], ref=list(sc))))
  # (vi) order (library's own scores)
  for i in range(len(recs) - 1):
    if gt(recs[i + 1]['score'], recs[i]['score']):
      viol.append(('C03:not-best-first', dict(det, pos=i, a=[float(t) for t in recs[i]['score']], b=[float(t) for t in recs[i + 1]['score']])))
      break
  # (iii)-(v): the omissions must be explainable by ONE reading of the treatment share (all data, or admitted geos);
  # an implementation may use either, but not something stricter than both
  if len(recs) > k:
    viol.append(('C03:more-than-k', dict(det, n=len(recs), k=k)))
  Rset = set(pairs)

  def obligations(Mx):
    out = []
    d_c = 0
    if len(recs) < min(k, len(Mx)):
      out.append(('C03:too-few-designs', dict(det, n=len(recs), k=k, feasible_unpruned=len(Mx),
                                              example=[sorted(x) for x in next(m for m in Mx if m not in Rset)])))
    elif len(recs) < k:
      missing = [m for m in Mx if m not in Rset]
      if missing:
        out.append(('C03:feasible-design-omitted', dict(det, T=sorted(missing[0][0]), C=sorted(missing[0][1]))))
    elif recs and len(recs) == k:
      last = ref_scores[-1]
      if last is None or last[1] or last[0] is None:
        d_c += 1
      else:
        for m in Mx:
          if m in Rset:
            continue
          sc, frag, d_m = score_of(sp, m[0], m[1], cache, bmax)
          if frag or sc is None:
            d_c += 1
            continue
          # 1 - rho^2 amplifies the last ulps of rho in the required impact of nearly collinear pairs
          slack = 2e-15 / max(1e-300, 1 - d_m['corr'] ** 2) + 2e-15 / max(1e-300, 1 - score_of(sp, pairs[-1][0], pairs[-1][1], cache, bmax)[2]['corr'] ** 2)
          if gt(sc, last[0], slack):
            out.append(('C03:better-design-omitted', dict(det, T=sorted(m[0]), C=sorted(m[1]), its_score=list(sc), worst_returned=list(last[0]),
                                                          worst_T=sorted(pairs[-1][0]), worst_C=sorted(pairs[-1][1]))))
            break
    return out, d_c

  if sp.par.treatment_share_range is None:
    v_all, d_c = obligations(M)
    viol += v_all
    dc += d_c
  else:
    v_all, d1 = obligations(an['M_all'])
    v_adm, d2 = obligations(an['M_adm'])
    dc += d1 + d2
    if v_all and v_adm:
      viol += [(kk, dict(dd, share_reading='all-data (the admitted-geos reading is violated too)')) for kk, dd in v_all]
    elif v_all or v_adm:
      cls.append('explained-by-one-share-reading')
      cls.append(WITNESS_CLASSES[1] if v_all else WITNESS_CLASSES[0])
  if an['P']:
    cls.append('pruning-set-nonempty')
  if len(an['f_union']) > k:
    cls.append('feasible>k')
  if len(an['legal']) > len(an['f_union']):
    cls.append('some-legal-infeasible')
  cls.append('returned:%s' % ('0' if not recs else '1' if len(recs) == 1 else '2+'))
  nt = len(an['f_union']) >= 1 and (len(an['f_union']) > k or bool(an['P']) or len(an['legal']) > len(an['f_union']))
  return {'viol': viol[:4], 'nt': nt, 'cls': cls, 'dc': dc}
