"""C17 - design parameters are accepted exactly in their documented domain.

Oracle R10: a documented-domain table written from the class docstring with verdicts
ACCEPT / REJECT (ValueError, exactly) / EITHER (docstring and callers silent).
"""
import math
from fractions import Fraction

from hypothesis import strategies as st

ID = 'C17'
RULE = ('(a) exhaustive: every field x every value of its boundary grid (each documented bound, its float '
        'neighbours, b+-1 for integer fields, 0, -0.0, +-inf, NaN, None, integer-valued floats, huge ints, bool, '
        'numpy scalars, str, list, complex; pairs: grid^2 plus wrong arity / list / inverted / equal ends) varied '
        'from a valid base; (b) Hypothesis: 1-3 fields varied at once from the same grids or raw doubles, and 2-8 fields all set to documented values at once (domains are independent). '
        'Non-trivial = a varied value lies on/adjacent to a documented bound or is a special value (anything but '
        'a plain interior number); distinct by spec hash (field, value encoding).')
BUDGET = {'quick': 3200, 'thorough': 200000}
FLOOR = {'quick': 1000, 'thorough': 5000}
EXHAUSTIVE = {'quick': 'all single-field variations over the boundary grid (scalars: full grid; pairs: grid^2 + malformed shapes)',
              'thorough': 'same single-field grid (it is the same finite set in both tiers)'}
ASSUMPTIONS = ['EITHER verdicts: bool and numpy scalars for numeric fields, integer-valued floats for integer fields, '
               '+inf for iroas, infinite upper end of budget_range, equal ends of budget_range/treatment_share_range, '
               'a two-element list in place of a tuple',
               'caller-grounded ACCEPTs: +inf tolerances (design colab passes np.inf), Python ints for float fields']

INF = float('inf')
NAN = float('nan')

# field -> spec. kind: 'int' | 'float' | 'ipair' | 'fpair'
#   lo, lo_closed, hi, hi_closed   (hi None = unbounded)
FIELDS = {
    'n_test': dict(kind='int', lo=1, optional=False),
    'iroas': dict(kind='float', lo=0.0, lo_closed=True, hi=None, inf='E', optional=False),
    'volume_ratio_tolerance': dict(kind='float', lo=0.0, lo_closed=False, hi=None, inf='A', optional=True),
    'geo_ratio_tolerance': dict(kind='float', lo=0.0, lo_closed=False, hi=None, inf='A', optional=True),
    'treatment_share_range': dict(kind='fpair', optional=True),
    'budget_range': dict(kind='fpair', optional=True),
    'treatment_geos_range': dict(kind='ipair', optional=True),
    'control_geos_range': dict(kind='ipair', optional=True),
    'n_geos_max': dict(kind='int', lo=2, optional=True),
    'n_pretest_max': dict(kind='int', lo=3, optional=False),
    'n_designs': dict(kind='int', lo=1, optional=False),
    'rho_max': dict(kind='float', lo=0.9, lo_closed=True, hi=1.0, hi_closed=False, optional=False),
    'sig_level': dict(kind='float', lo=0.0, lo_closed=False, hi=1.0, hi_closed=False, optional=False),
    'power_level': dict(kind='float', lo=0.0, lo_closed=False, hi=1.0, hi_closed=False, optional=False),
    'min_corr': dict(kind='float', lo=0.8, lo_closed=True, hi=1.0, hi_closed=False, optional=False),
    'flevel': dict(kind='float', lo=0.9, lo_closed=True, hi=1.0, hi_closed=False, optional=False),
}
DOCUMENTED_DEFAULTS = {'volume_ratio_tolerance': None, 'geo_ratio_tolerance': None, 'treatment_share_range': None,
                       'budget_range': None, 'treatment_geos_range': None, 'control_geos_range': None,
                       'n_geos_max': None, 'n_pretest_max': 90, 'n_designs': 1, 'rho_max': 0.995,
                       'power_level': 0.8, 'min_corr': 0.8}
BASE = {'n_test': {'t': 'i', 'v': 7}, 'iroas': {'t': 'f', 'v': (1.0).hex()}}


# ---- value encoding (JSON-able, exact) -------------------------------------

def enc(v):
  import numpy as np
  if v is None:
    return {'t': 'none'}
  if isinstance(v, bool):
    return {'t': 'b', 'v': v}
  if isinstance(v, np.floating):
    return {'t': 'np' + type(v).__name__, 'v': float(v).hex()}
  if isinstance(v, np.integer):
    return {'t': 'np' + type(v).__name__, 'v': int(v)}
  if isinstance(v, int):
    return {'t': 'i', 'v': str(v) if abs(v) > 2 ** 53 else v}
  if isinstance(v, float):
    return {'t': 'f', 'v': v.hex()}
  if isinstance(v, str):
    return {'t': 's', 'v': v}
  if isinstance(v, complex):
    return {'t': 'c'}
  if isinstance(v, tuple):
    return {'t': 'tuple', 'v': [enc(x) for x in v]}
  if isinstance(v, list):
    return {'t': 'list', 'v': [enc(x) for x in v]}
  raise TypeError(v)


def dec(e):
  import numpy as np
  t = e['t']
  if t == 'none':
    return None
  if t == 'b':
    return bool(e['v'])
  if t == 'i':
    return int(e['v'])
  if t == 'f':
    return float.fromhex(e['v'])
  if t == 's':
    return e['v']
  if t == 'c':
    return 1j
  if t == 'tuple':
    return tuple(dec(x) for x in e['v'])
  if t == 'list':
    return [dec(x) for x in e['v']]
  if t.startswith('np'):
    ty = getattr(np, t[2:])
    return ty(float.fromhex(e['v'])) if isinstance(e['v'], str) else ty(e['v'])
  raise ValueError(e)


# ---- verdicts ---------------------------------------------------------------

def _num_class(e):
  """'int' | 'float' | 'bool' | 'np' | 'bad' for one encoded scalar."""
  t = e['t']
  if t == 'i':
    return 'int'
  if t == 'f':
    return 'float'
  if t == 'b':
    return 'bool'
  if t.startswith('np'):
    return 'np'
  return 'bad'


def _in_interval(v, lo, lo_closed, hi, hi_closed):
  if isinstance(v, float) and v != v:
    return False
  if lo is not None:
    if v < lo or (v == lo and not lo_closed):
      return False
  if hi is not None:
    if v > hi or (v == hi and not hi_closed):
      return False
  return True


def _scalar_verdict(f, e):
  kc = _num_class(e)
  if kc == 'bad':
    return 'R'
  v = dec(e)
  fv = float(v) if kc != 'int' else v
  if kc == 'int' and f['kind'] != 'int' and abs(v) >= 2 ** 1024:
    return 'R' if v < 0 else 'E'          # an integer beyond the float range in a float-typed field: docs silent
  if f['kind'] == 'int':
    if isinstance(fv, float) and (fv != fv or math.isinf(fv)):
      return 'R'
    if fv < f['lo']:
      return 'R'
    if kc == 'int':
      return 'A'
    if kc in ('bool', 'np'):
      return 'E' if float(fv) == int(fv) else 'R'
    # python float
    return 'E' if fv == int(fv) else 'R'
  # float field
  if isinstance(fv, float) and fv != fv:
    return 'R'
  if isinstance(fv, float) and math.isinf(fv):
    if fv < 0:
      return 'R'
    if f.get('hi') is not None:
      return 'R'
    return f.get('inf', 'R') if kc in ('float',) else 'E'
  ok = _in_interval(fv, f['lo'], f['lo_closed'], f.get('hi'), f.get('hi_closed', False))
  if not ok:
    return 'R'
  return 'A' if kc in ('int', 'float') else 'E'


def _pair_verdict(name, f, e):
  if e['t'] not in ('tuple', 'list'):
    return 'R'
  if len(e['v']) != 2:
    return 'R'
  soft = e['t'] == 'list'
  classes = [_num_class(x) for x in e['v']]
  if 'bad' in classes:
    return 'R'
  lo, hi = (dec(x) for x in e['v'])
  vals = []
  for x, c in zip((lo, hi), classes):
    vals.append(x if c == 'int' else float(x))
    if c in ('bool', 'np'):
      soft = True
  lo, hi = vals
  if any(isinstance(x, float) and x != x for x in vals):
    return 'R'
  if f['kind'] == 'ipair':
    for x in vals:
      if isinstance(x, float) and math.isinf(x):
        return 'R'
      if x < 1:
        return 'R'
      if isinstance(x, float):
        if x != int(x):
          return 'R'
        soft = True
    if lo > hi:
      return 'R'
    return 'E' if soft else 'A'
  if name == 'treatment_share_range':
    if not (0 < lo < 1 and 0 < hi < 1):
      return 'R'
    if lo > hi:
      return 'R'
    if lo == hi:
      return 'E'
    return 'E' if soft else 'A'
  # budget_range
  if lo < 0 or hi < 0:
    return 'R'
  if isinstance(lo, float) and math.isinf(lo):
    return 'R' if hi < lo else 'E'
  if lo > hi:
    return 'R'
  if isinstance(hi, float) and math.isinf(hi):
    return 'E'
  if lo == hi:
    return 'E'
  return 'E' if soft else 'A'


def verdict(name, e):
  f = FIELDS[name]
  if e['t'] == 'none':
    return 'A' if f['optional'] else 'R'
  if f['kind'] in ('int', 'float'):
    return _scalar_verdict(f, e)
  return _pair_verdict(name, f, e)


# ---- grids -------------------------------------------------------------------

def _nb(x):
  return [math.nextafter(x, -INF), x, math.nextafter(x, INF)]


def scalar_grid(name):
  import numpy as np
  f = FIELDS[name]
  g = [None, True, False, 'x', '1', [1], (1,), 1j, NAN, INF, -INF, 0, 0.0, -0.0, 1, 1.0, -1, -1.0, 2, 3, 10 ** 30, 1e30,
       5e-324, -5e-324, 0.5, np.float64(1.0), np.float64(0.95), np.int64(5), np.float32(0.5), np.int32(1), np.float64(NAN),
       np.float64(INF)]
  if f['kind'] == 'int':
    b = f['lo']
    g += [b - 1, b, b + 1, float(b - 1), float(b), float(b + 1), b + 0.5, b - 0.5] + _nb(float(b)) + [90, 90.0, 2 ** 62, 2.0 ** 62, -2 ** 62,
                                                                                                    10 ** 400, -10 ** 400, 2 ** 1024]
  else:
    for b in (f['lo'], f.get('hi')):
      if b is not None:
        g += _nb(float(b))
    g += [0.8, 0.9, 0.95, 0.995, 0.999999, 1.5, 100.0, 7]
  return g


def pair_grid(name):
  import numpy as np
  f = FIELDS[name]
  if f['kind'] == 'ipair':
    ends = [0, 1, 2, 3, 10 ** 30, 10 ** 400, 1.0, 2.0, 2.5, 0.0, -1, INF, NAN, -INF, True, None, 'a', np.int64(2), math.nextafter(1.0, 0), math.nextafter(1.0, 2)]
  elif name == 'treatment_share_range':
    ends = [0, 0.0, -0.0, 5e-324, 0.1, 0.3, 0.5, math.nextafter(1.0, 0), 1.0, 1, math.nextafter(1.0, 2), -0.1, INF, NAN, -INF, True,
            None, 'a', np.float64(0.4)]
  else:
    ends = [0, 0.0, -0.0, 5e-324, -5e-324, 1, 1.0, 10, 1e6, 300000, 1e308, INF, -INF, NAN, -1, True, None, 'a', np.float64(5.0)]
  g = [None, 1, 1.0, 'x', 1j, (), (1,), (1, 2, 3), [1, 2], [0.1, 0.5], [1], 'ab', (0.2,), ((1, 2),), True]
  for a in ends:
    for b in ends:
      g.append((a, b))
  return g


def grid(name):
  return scalar_grid(name) if FIELDS[name]['kind'] in ('int', 'float') else pair_grid(name)


def enumerate_cases(tier):
  for name in FIELDS:
    for v in grid(name):
      yield {'fields': {name: enc(v)}}


# ---- Hypothesis combos -------------------------------------------------------

VALID = {
    'n_test': [1, 7, 14, 28, 98], 'iroas': [0.0, 0.5, 1.0, 3, 10.0],
    'volume_ratio_tolerance': [0.05, 0.5, 1.0, 9.0, INF], 'geo_ratio_tolerance': [0.1, 0.5, 1.0, 3.0, INF],
    'treatment_share_range': [(0.1, 0.5), (0.001, 0.999), (0.3, 0.9)], 'budget_range': [(0, 10), (0.1, 300000), (5.0, 5.5)],
    'treatment_geos_range': [(1, 1), (1, 5), (2, 9), (3, 40), (5, 5)], 'control_geos_range': [(1, 1), (1, 5), (2, 9), (3, 40), (4, 4)],
    'n_geos_max': [2, 3, 5, 8, 40], 'n_pretest_max': [3, 10, 90, 365], 'n_designs': [1, 3, 50, 10000],
    'rho_max': [0.9, 0.95, 0.995, 0.999], 'sig_level': [0.05, 0.5, 0.9, 0.99], 'power_level': [0.05, 0.5, 0.8, 0.99],
    'min_corr': [0.8, 0.9, 0.99], 'flevel': [0.9, 0.95, 0.999],
}


@st.composite
def _all_valid(draw):
  """Several fields at once, every one at a documented (interior or boundary) value: construction must succeed.
  The documented domains are independent of each other, so any cross-field rejection is a violation."""
  names = draw(st.lists(st.sampled_from(sorted(FIELDS)), min_size=2, max_size=8, unique=True))
  return {'fields': {n: enc(VALID[n][draw(st.integers(0, len(VALID[n]) - 1))]) for n in names}}


@st.composite
def _combo(draw):
  names = draw(st.lists(st.sampled_from(sorted(FIELDS)), min_size=1, max_size=3, unique=True))
  fields = {}
  for name in names:
    f = FIELDS[name]
    if f['kind'] in ('int', 'float'):
      mode = draw(st.integers(0, 3))
      if mode == 0:
        v = draw(st.floats(allow_nan=True, allow_infinity=True))
      elif mode == 1 and f['kind'] == 'int':
        v = draw(st.integers(-5, 200))
      elif mode == 1:
        v = draw(st.floats(min_value=-0.5, max_value=1.5))
      else:
        g = scalar_grid(name)
        v = g[draw(st.integers(0, len(g) - 1))]
    else:
      mode = draw(st.integers(0, 2))
      if mode == 0:
        a = draw(st.floats(allow_nan=True, allow_infinity=True) if f['kind'] == 'fpair' else st.integers(-2, 12))
        b = draw(st.floats(allow_nan=True, allow_infinity=True) if f['kind'] == 'fpair' else st.integers(-2, 12))
        v = (a, b)
      elif mode == 1 and f['kind'] == 'fpair':
        a = draw(st.floats(min_value=0, max_value=1))
        b = draw(st.floats(min_value=0, max_value=1))
        v = (a, b)
      else:
        g = pair_grid(name)
        v = g[draw(st.integers(0, len(g) - 1))]
    fields[name] = enc(v)
  return {'fields': fields}


def strategy(tier):
  return st.one_of(_combo(), _combo(), _all_valid())


# ---- oracle --------------------------------------------------------------------

def _special(name, e):
  """Non-trivial rule: on/adjacent to a documented bound or a special value."""
  t = e['t']
  if t in ('none', 'b', 's', 'c', 'list') or t.startswith('np'):
    return True
  if t == 'tuple':
    return len(e['v']) != 2 or any(_special_num(name, x) for x in e['v']) or dec(e['v'][0]) == dec(e['v'][1])
  return _special_num(name, e)


def _special_num(name, e):
  if e['t'] not in ('i', 'f'):
    return True
  v = dec(e)
  if isinstance(v, float) and (v != v or math.isinf(v)):
    return True
  if isinstance(v, float) and v == int(v):
    return True
  f = FIELDS[name]
  bounds = {'int': [f.get('lo')], 'float': [f.get('lo'), f.get('hi')], 'ipair': [1], 'fpair': [0.0, 1.0]}[f['kind']]
  if isinstance(v, int) and abs(v) >= 2 ** 1024:
    return True
  for b in bounds:
    if b is None:
      continue
    if abs(float(v) - b) <= max(1.0 if f['kind'] in ('int', 'ipair') else 0.0, 4 * abs(math.nextafter(float(b), INF) - b)):
      return True
  return abs(v) >= 2 ** 53


def _same(a, b):
  if isinstance(a, float) and isinstance(b, float) and a != a and b != b:
    return True
  if isinstance(a, (tuple, list)) and isinstance(b, (tuple, list)):
    return type(a) is type(b) and len(a) == len(b) and all(_same(x, y) for x, y in zip(a, b))
  try:
    return bool(a == b) and type(a) is type(b)
  except Exception:  # pylint: disable=broad-except
    return a is b


def run(spec):
  import dataclasses
  from matched_markets.methodology import tbrmmdesignparameters
  P = tbrmmdesignparameters.TBRMMDesignParameters
  enc_fields = dict(BASE)
  enc_fields.update(spec['fields'])
  kwargs = {k: dec(v) for k, v in enc_fields.items()}
  verdicts = {k: verdict(k, v) for k, v in spec['fields'].items()}
  expect = 'R' if 'R' in verdicts.values() else ('E' if 'E' in verdicts.values() else 'A')
  viol = []
  cls = ['expect:' + expect] + ['field:' + k for k in spec['fields']]
  detail = {'fields': {k: repr(kwargs[k]) for k in spec['fields']}, 'verdicts': verdicts}
  try:
    obj = P(**kwargs)
    outcome = 'ok'
  except ValueError as e:
    outcome = 'ValueError'
    detail['msg'] = str(e)[:100]
  except Exception as e:  # pylint: disable=broad-except
    outcome = 'other'
    detail['exc'] = '%s: %s' % (type(e).__name__, str(e)[:100])
  cls.append('outcome:' + outcome)
  if outcome == 'other':
    viol.append(('C17:wrong-exception:%s' % detail['exc'].split(':')[0], detail))
  elif expect == 'A' and outcome != 'ok':
    viol.append(('C17:documented-value-rejected', detail))
  elif expect == 'R' and outcome == 'ok':
    viol.append(('C17:undocumented-value-accepted', detail))
  if outcome == 'ok':
    # the object holds what was passed, defaults are the documented ones
    for k, v in kwargs.items():
      if not _same(getattr(obj, k), v):
        viol.append(('C17:field-not-stored', dict(detail, field=k, got=repr(getattr(obj, k)))))
    for k, dv in DOCUMENTED_DEFAULTS.items():
      if k not in kwargs and not _same(getattr(obj, k), dv):
        viol.append(('C17:default', {'field': k, 'got': repr(getattr(obj, k)), 'documented': repr(dv)}))
    # equality compares field values
    has_nan = 'nan' in repr(kwargs)
    try:
      twin = P(**{k: dec(v) for k, v in enc_fields.items()})
      if not has_nan and not (obj == twin):
        viol.append(('C17:equal-kwargs-not-equal', detail))
      other_kwargs = dict(kwargs)
      other_kwargs['n_test'] = 8 if kwargs.get('n_test') != 8 else 9
      if 'n_test' not in spec['fields']:
        other = P(**other_kwargs)
        if obj == other:
          viol.append(('C17:different-objects-equal', detail))
      if 'n_designs' not in spec['fields']:
        other = P(**dict(kwargs, n_designs=2))
        if obj == other:
          viol.append(('C17:different-objects-equal', detail))
      # ... also after fields were re-assigned on objects that have already been compared (and on copies of them)
      if not has_nan and 'n_designs' not in spec['fields']:
        import copy
        a, b = P(**kwargs), P(**kwargs)
        steps = [a == b]
        a.n_designs = 2 if kwargs.get('n_designs') != 2 else 3
        steps.append(a == b)
        c = copy.copy(a)
        steps.append(c == a)
        c.n_designs = b.n_designs
        steps += [c == b, c == a, a != b]
        b.n_designs = a.n_designs
        steps.append(a == b)
        if steps != [True, False, True, True, False, True, True]:
          viol.append(('C17:equality-after-assignment', dict(detail, steps=steps, want=[True, False, True, True, False, True, True])))
    except Exception as e:  # pylint: disable=broad-except
      viol.append(('C17:equality-raised', dict(detail, exc='%s: %s' % (type(e).__name__, e))))
    fields = {f.name for f in dataclasses.fields(obj)}
    if fields != set(FIELDS):
      viol.append(('C17:field-set', {'fields': sorted(fields)}))
  nt = any(_special(k, v) for k, v in spec['fields'].items())
  return {'viol': viol, 'nt': nt, 'cls': cls, 'dc': 0}
