"""C12 - search results are invariant to how the input is presented (metamorphic)."""
import json
import os
import subprocess
import sys

from hypothesis import strategies as st

from vmm import util
from vmm.gen import search as G
from vmm.ref import searchlib as L

ID = 'C12'
RULE = ('Hypothesis base input as C01 (<=6 geos) x a drawn transformation: new row permutation, date shift by +-k days, all-digit '
        'IDs int <-> str, bijective renaming that reverses lexicographic order (frame and table alike), responses and budget '
        'range scaled by 2^k (k in -45..45, no under- or overflow for the generated magnitudes); both searches on base and transformed inputs, compared position by position up to '
        'the renaming / scaling, tie-tolerant. Thorough tier: ~1.5% of the cases are re-run in a child process under a different '
        'PYTHONHASHSEED. Non-trivial = >=1 design returned by some search and the transformation is not the identity; distinct by spec hash.')
BUDGET = {'quick': 480, 'thorough': 8000}
FLOOR = {'quick': 40, 'thorough': 1000}
ROUNDS = {'quick': 2, 'thorough': 3}
ASSUMPTIONS = ['equal adjacent scores (within 1e-9) form a tie class inside which groups may be permuted',
               'powers of two only, so scaling is exact in floating point']


@st.composite
def _spec(draw, tier):
  spec = draw(st.one_of(G.search_spec(max_geos=6, min_geos=2, constraint_p=0.35),
                        G.search_spec(max_geos=6, min_geos=3, constraint_p=0.25, elig_style='mixed')))
  if draw(st.booleans()):
    spec['params']['n_designs'] = draw(st.sampled_from([3, 5, 10]))
  n_g = len(spec['panel']['ids'])
  if n_g >= 3 and draw(st.integers(0, 2)) == 0:
    # exact tie in single-geo required impact (decided by the volume order of the data, never by the names)
    i = draw(st.integers(0, n_g - 1))
    j = draw(st.integers(0, n_g - 2))
    j = j if j < i else j + 1
    spec['panel']['mirror'] = [[i, j, draw(st.sampled_from([16, -16, 64, 256]))]]
    spec['params']['n_pretest_max'] = None
    spec['params']['n_geos_max'] = draw(st.integers(2, max(2, n_g - 1)))
    spec['params']['budget_q'] = None
    spec['params']['share_q'] = None
  if draw(st.integers(0, 3)) == 0:
    spec['panel']['dup_rows'] = [[draw(st.integers(0, 5)), draw(st.integers(0, 29)), draw(st.sampled_from([8, 64, 512]))]
                                 for _ in range(draw(st.integers(1, 3)))]
    spec['panel']['missing'] = []
  if not spec['panel']['id_int'] and draw(st.integers(0, 4)) == 0:
    spec['panel']['orphan_rows'] = [[draw(st.integers(0, 29)), draw(st.integers(0, 500))] for _ in range(draw(st.integers(1, 3)))]
  spec['transform'] = {
      'perm_seed': draw(st.integers(1, 10 ** 6)) if draw(st.booleans()) else None,
      'shift': draw(st.sampled_from([0, 0, 1, -1, 7, -7, 365, -400, 3])),
      'id_flip': draw(st.booleans()) and not spec['panel'].get('orphan_rows'),
      'rename': draw(st.booleans()),
      'k': draw(st.sampled_from([0, 0, 1, -1, 3, -8, 8, -20, 20, -30, -33, -40, -45, 30, 45])),
      'row_labels': draw(st.sampled_from([None, 'kept', 'gaps', 'repeated'])),
  }
  spec['child_hashseed'] = draw(st.integers(1, 4000)) if (tier == 'thorough' and draw(st.integers(0, 60)) == 0) else None
  return spec


def strategy(tier):
  return _spec(tier)


def rename_map(spec):
  ids = sorted(set(spec['panel']['ids']) | ({r[0] for r in spec['elig']['rows']} if spec['elig'] else set()))
  n = len(ids)
  return {g: 'r%02d' % (n - 1 - i) for i, g in enumerate(ids)}


def serial(res, inv=None):
  if res[0] != 'ok':
    return [res[0]]
  out = []
  for r in res[1]:
    T = sorted((inv[g] if inv else g) for g in r['T'])
    C = sorted((inv[g] if inv else g) for g in r['C'])
    out.append({'T': T, 'C': C, 'score': [float(x) for x in r['score']], 'corr': float(r['corr']), 'impact': float(r['required_impact'])})
  return out


def same_score(a, b, fac_last):
  return tuple(a[:4]) == tuple(b[:4]) and util.close(a[4], b[4], 0, 1e-12) and util.close(a[5] * fac_last, b[5], 1e-9)


def compare(base, other, fac_impact, fac_last, tag, det):
  """base/other: serialised result lists (other already un-renamed)."""
  viol = []
  ties = 0
  if (base[:1] in (['ValueError'], ['rejected'])) or (other[:1] in (['ValueError'], ['rejected'])):
    if base[:1] != other[:1]:
      viol.append(('C12:%s:outcome-differs' % tag, dict(det, base=str(base[:1]), transformed=str(other[:1]))))
    return viol, ties
  if base and isinstance(base[0], str) or other and isinstance(other[0], str):
    if base[:1] != other[:1]:
      viol.append(('C12:%s:outcome-differs' % tag, dict(det, base=str(base[:1]), transformed=str(other[:1]))))
    return viol, ties
  if len(base) != len(other):
    viol.append(('C12:%s:number-of-designs' % tag, dict(det, base=len(base), transformed=len(other))))
    return viol, ties
  for i, (a, b) in enumerate(zip(base, other)):
    if not same_score(a['score'], b['score'], fac_last):
      viol.append(('C12:%s:score-sequence' % tag, dict(det, pos=i, base=a['score'], transformed=b['score'], k_last=fac_last)))
      break
    if (a['T'], a['C']) != (b['T'], b['C']):
      # allowed only inside a tie class of the base result
      twin = [x for x in base if (x['T'], x['C']) == (b['T'], b['C'])]
      if twin and same_score(twin[0]['score'], a['score'], 1.0):
        ties += 1
        continue
      viol.append(('C12:%s:groups-differ' % tag, dict(det, pos=i, base=[a['T'], a['C']], transformed=[b['T'], b['C']])))
      break
    if not (util.close(a['corr'], b['corr'], 1e-9) and util.close(a['impact'] * fac_impact, b['impact'], 1e-9)):
      viol.append(('C12:%s:diagnostics-differ' % tag, dict(det, pos=i, base=[a['corr'], a['impact']], transformed=[b['corr'], b['impact']])))
      break
  return viol, ties


def run(spec):
  case = L.materialise(spec)
  sp = case.space
  tr = spec['transform']
  cls = ['geos:%d' % len(sp.geos)]
  det = dict(L.describe(case), transform=tr)
  rn = rename_map(spec) if tr['rename'] else None
  inv = {v: k for k, v in rn.items()} if rn else None
  scale = 2.0 ** tr['k']
  id_int = (not spec['panel']['id_int']) if tr['id_flip'] else None
  other_case = L.transformed(case, scale=scale, rename=rn, date_shift=tr['shift'], id_int=id_int, perm_seed=tr['perm_seed'],
                             row_labels=tr.get('row_labels'))
  identity = not (tr['perm_seed'] or tr['shift'] or tr['rename'] or tr['k'] or (tr['id_flip'] and all(g.isdigit() for g in spec['panel']['ids'])))
  if spec['panel'].get('mirror'):
    cls.append('tied-impact-pair')
  if spec['panel'].get('dup_rows'):
    cls.append('duplicated-rows')
  for name in ('perm_seed', 'shift', 'id_flip', 'rename', 'k'):
    if tr[name]:
      cls.append('tr:' + name)
  viol = []
  dc = 0
  any_design = False
  results = {}
  for method in ('exhaustive_search', 'greedy_search'):
    tag = method.split('_')[0]
    base = serial(L.run_search(case, method))
    other = serial(L.run_search(other_case, method), inv)
    results[method] = base
    if base and isinstance(base[0], dict):
      any_design = True
    budget_scored = tag == 'exhaustive' and 'budget_range' in case.kwargs
    v, ties = compare(base, other, scale, 1.0 if budget_scored else 1.0 / scale, tag, det)
    viol += v
    dc += ties
  if spec.get('child_hashseed'):
    cls.append('hashseed-child')
    child = run_child(spec, spec['child_hashseed'])
    for method in ('exhaustive_search', 'greedy_search'):
      tag = method.split('_')[0]
      v, ties = compare(results[method], child[method], 1.0, 1.0, tag + ':hashseed', det)
      viol += v
      dc += ties
  nt = any_design and (not identity or bool(spec.get('child_hashseed')))
  return {'viol': viol[:4], 'nt': nt, 'cls': cls, 'dc': dc}


def run_child(spec, hashseed):
  env = dict(os.environ, PYTHONHASHSEED=str(hashseed))
  p = subprocess.run([sys.executable, '-W', 'ignore', '-m', 'vmm.props.c12'], input=json.dumps(spec), capture_output=True, text=True, env=env)
  if p.returncode != 0:
    from vmm import core
    raise core.HarnessError('C12 child failed: %s' % p.stderr[-500:])
  return json.loads(p.stdout.strip().splitlines()[-1])


if __name__ == '__main__':
  import warnings
  warnings.simplefilter('ignore')
  _spec_in = json.loads(sys.stdin.read())
  _case = L.materialise(_spec_in)
  print(json.dumps({m: serial(L.run_search(_case, m)) for m in ('exhaustive_search', 'greedy_search')}))
