"""Small shared helpers: NaN-aware structural comparison, tolerant float comparison."""
import math

import numpy as np


def close(a, b, rtol=1e-9, atol=0.0):
  """NaN == NaN, inf == inf; relative tolerance on max(|a|,|b|)."""
  try:
    a = float(a)
    b = float(b)
  except (TypeError, ValueError):
    return a == b
  if a != a or b != b:
    return a != a and b != b
  if math.isinf(a) or math.isinf(b):
    return a == b
  return abs(a - b) <= atol + rtol * max(abs(a), abs(b))


def deep_eq(a, b, rtol=1e-12, atol=0.0):
  """Structural equality: None, bools exact; floats close(); arrays/tuples elementwise."""
  if a is None or b is None:
    return a is None and b is None
  if isinstance(a, (bool, np.bool_)) or isinstance(b, (bool, np.bool_)):
    return isinstance(a, (bool, np.bool_)) and isinstance(b, (bool, np.bool_)) and bool(a) == bool(b)
  if isinstance(a, np.ndarray) or isinstance(b, np.ndarray):
    a = np.asarray(a)
    b = np.asarray(b)
    if a.shape != b.shape:
      return False
    if a.dtype.kind in 'fiu' and b.dtype.kind in 'fiu':
      a = a.astype(float)
      b = b.astype(float)
      both_nan = np.isnan(a) & np.isnan(b)
      with np.errstate(invalid='ignore'):
        ok = (np.abs(a - b) <= atol + rtol * np.maximum(np.abs(a), np.abs(b))) | both_nan | (a == b)
      return bool(ok.all())
    return bool((a == b).all())
  if isinstance(a, (tuple, list)) and isinstance(b, (tuple, list)):
    return len(a) == len(b) and all(deep_eq(x, y, rtol, atol) for x, y in zip(a, b))
  if isinstance(a, (int, float, np.integer, np.floating)) and isinstance(b, (int, float, np.integer, np.floating)):
    return close(a, b, rtol, atol)
  return a == b


def summarize(v, n=6):
  """Short printable form of a library value for violation details."""
  if isinstance(v, np.ndarray):
    return [summarize(x) for x in v.tolist()[:n]]
  if isinstance(v, (tuple, list)):
    return [summarize(x) for x in list(v)[:n]]
  if isinstance(v, (np.floating, float)):
    return float(v)
  if isinstance(v, (np.bool_, bool)):
    return bool(v)
  if isinstance(v, (np.integer, int)):
    return int(v)
  return None if v is None else repr(v)[:80]
