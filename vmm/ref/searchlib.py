"""Shared machinery for the search properties (C01-C04, C09-C13, C15): materialise, reference space (R1-R3, R6, R7),
library drivers. The reference side never calls matched_markets; the driver side is the only place that does.
"""
import itertools
import math
import types
from fractions import Fraction

import numpy as np

from vmm.ref import diag as R

BAND = 1e-9
PAR_DEFAULTS = dict(volume_ratio_tolerance=None, geo_ratio_tolerance=None, treatment_share_range=None, budget_range=None,
                    treatment_geos_range=None, control_geos_range=None, n_geos_max=None, n_pretest_max=90, n_designs=1,
                    sig_level=0.9, power_level=0.8, min_corr=0.8, rho_max=0.995, flevel=0.9)


# ---------------------------------------------------------------------------
# materialise

def panel_values(panel):
  n_dates = panel['n_dates']
  f = 100.0 + np.cumsum(np.asarray(panel['factor'], float))
  d = np.arange(n_dates)
  out = []
  for g, (lv, am) in enumerate(zip(panel['level'], panel['amp'])):
    pat = lv * ((7 * g + 3 * d) % 11) / 8.0
    sign = panel.get('sign', [1] * len(panel['level']))[g]
    fg = f if sign > 0 else (200.0 - f) + 100.0
    v = lv * fg + am * np.asarray(panel['noise'][g], float) / 512.0 + pat
    v = np.maximum(0, np.round(v * 1024)) / 1024 + float(panel.get('offset', 0))
    if panel.get('resp_int'):
      v = np.round(v)
    em = panel.get('early', [1] * len(panel['level']))[g]
    if em != 1:
      v = v.copy()
      v[:n_dates // 2] = v[:n_dates // 2] * em
    for fg_, ln in panel.get('flat', []):
      if fg_ == g:
        v = v.copy()
        v[n_dates - ln:] = float(np.round(v[n_dates - ln]))
    out.append(v)
  for i, j in panel.get('copy', []):
    out[j] = out[i].copy()          # two geos with bit-identical series (exact score ties)
  for i, j, shift in panel.get('mirror', []):
    # geo j = geo i run backwards in time plus a level shift: same spread (tied required impact), different mean
    out[j] = out[i][::-1] + float(shift)
  for i, j in panel.get('near_copy', []):
    # geo j = geo i in a 3e-5 larger edition (exact): designs that differ only in the twin score within 1e-4 of each other
    out[j] = out[i] * (1.0 + 2.0 ** -15)
  k = panel.get('unit_k', 0)
  if k:
    out = [v * (2.0 ** k) for v in out]        # the same panel recorded in another unit (exact)
  return out


def panel_dates(panel):
  import pandas as pd
  step = 7 if panel['freq'] == 'W' else 1
  base = pd.Timestamp('2018-01-01') + pd.Timedelta(days=int(panel['start'])) + pd.Timedelta(hours=int(panel.get('hour', 0)))
  return [base + pd.Timedelta(days=step * i) for i in range(panel['n_dates'])]


def present_id(g, as_int):
  return int(g) if (as_int and g.isdigit()) else g


def build_frame(panel, scale=1.0, rename=None, date_shift=0, permute=True, id_int=None):
  import pandas as pd
  vals = panel_values(panel)
  dates = panel_dates(panel)
  if date_shift:
    dates = [d + pd.Timedelta(days=int(date_shift)) for d in dates]
  as_int = panel['id_int'] if id_int is None else id_int
  missing = {(a, b) for a, b in panel.get('missing', [])}
  nan_rows = panel.get('missing_as_nan', False)
  rows_d, rows_g, rows_v = [], [], []
  for gi, g in enumerate(panel['ids']):
    name = rename[g] if rename else g
    pid = present_id(name, as_int and all(x.isdigit() for x in (rename.values() if rename else panel['ids'])))
    for di in range(panel['n_dates']):
      if (gi, di) in missing:
        if nan_rows and (gi + di) % 2 == 0:
          rows_d.append(dates[di])
          rows_g.append(pid)
          rows_v.append(float('nan'))      # the row exists, its value is missing
        continue
      rows_d.append(dates[di])
      rows_g.append(pid)
      rows_v.append(float(vals[gi][di]) * scale)
  if panel.get('date_str'):
    rows_d = [d.strftime('%Y-%m-%d') for d in rows_d]      # ISO strings sort chronologically
  for gi, di, delta in panel.get('dup_rows', []):
    # a second row for an existing (geo, date) cell with another value (C12 only: how duplicates are combined is
    # not specified, but it must not depend on the order of the rows)
    gi, di = gi % len(panel['ids']), di % panel['n_dates']
    name = rename[panel['ids'][gi]] if rename else panel['ids'][gi]
    rows_d.append(dates[di].strftime('%Y-%m-%d') if panel.get('date_str') else dates[di])
    rows_g.append(present_id(name, as_int and all(x.isdigit() for x in (rename.values() if rename else panel['ids']))))
    rows_v.append((float(vals[gi][di]) + delta) * scale)
  for di, delta in panel.get('orphan_rows', []):
    # rows without a geo ID (e.g. a national total exported next to the per-geo rows): they belong to no geo
    if not as_int:
      di = di % panel['n_dates']
      rows_d.append(dates[di].strftime('%Y-%m-%d') if panel.get('date_str') else dates[di])
      rows_g.append(None)
      rows_v.append(float(1000 + delta) * scale)
  df = pd.DataFrame({'date': rows_d, 'geo': rows_g, panel['resp_col']: rows_v})
  if panel.get('resp_int') and scale == 1.0 and not df[panel['resp_col']].isna().any() and (df[panel['resp_col']] % 1 == 0).all() \
      and df[panel['resp_col']].abs().max() < 2 ** 62:
    df[panel['resp_col']] = df[panel['resp_col']].astype('int64')
  if panel.get('date_cat') and len(df):
    cats = sorted(set(df['date']))
    if isinstance(cats[-1], str):
      later = [(pd.Timestamp(cats[-1]) + pd.Timedelta(days=k)).strftime('%Y-%m-%d') for k in (1, 2)]
    else:
      later = [cats[-1] + pd.Timedelta(days=k) for k in (1, 2)]
    df['date'] = pd.Categorical(df['date'], categories=cats + later, ordered=True)
  if panel.get('resp_dtype') in ('Float64', 'Int64'):
    # pandas nullable dtypes (Int64 only when the values are whole numbers)
    col = df[panel['resp_col']]
    if panel['resp_dtype'] == 'Float64':
      df[panel['resp_col']] = col.astype('float64').astype('Float64')
    elif not col.isna().any() and (col % 1 == 0).all() and col.abs().max() < 2 ** 62:
      df[panel['resp_col']] = col.astype('int64').astype('Int64')
  if panel.get('extra_col'):
    df['unused'] = 1.5
  gd = panel.get('geo_dtype')
  if gd == 'object' or (gd == 'mixed' and df['geo'].map(lambda v: isinstance(v, int)).all()):
    # Python ints (or ints and strings side by side) in an object column, as left by a merge or by read_csv(dtype=object)
    vals_g = list(df['geo'])
    if gd == 'mixed':
      flip = set(sorted(set(vals_g))[::2])
      vals_g = [str(v) if v in flip else v for v in vals_g]
    df['geo'] = pd.Series(vals_g, dtype=object, index=df.index)
  elif gd == 'string' and df['geo'].map(lambda v: isinstance(v, str)).all():
    df['geo'] = df['geo'].astype('string')
  rl = panel.get('row_labels')
  ro = panel.get('row_order')
  if permute and ro:
    # rows as a database export would deliver them: sorted, but not by (geo, ascending date)
    key_g = df['geo'].map(lambda v: 'zzzz' if (v is None or v != v) else str(v))
    if ro == 'geo-asc-date-desc':
      order = sorted(range(len(df)), key=lambda i: (key_g.iloc[i], -pd.Timestamp(df['date'].iloc[i]).value))
    elif ro == 'geo-asc-date-perm':
      rank = {d: r for r, d in enumerate(np.random.RandomState(panel.get('perm_seed', 0) % (2 ** 31)).permutation(sorted(set(df['date']))))}
      order = sorted(range(len(df)), key=lambda i: (key_g.iloc[i], rank[df['date'].iloc[i]]))
    else:
      order = sorted(range(len(df)), key=lambda i: (-pd.Timestamp(df['date'].iloc[i]).value, key_g.iloc[i]))
    df = df.iloc[order].reset_index(drop=True)
  elif permute and panel.get('perm_seed'):
    rs = np.random.RandomState(panel['perm_seed'] % (2 ** 31))
    df = df.iloc[rs.permutation(len(df))]
    if rl != 'kept':
      df = df.reset_index(drop=True)       # 'kept': the labels travel with the shuffled rows (df.sample / df.iloc[perm])
  if rl == 'gaps':
    df.index = [3 * i + 1 for i in range(len(df))]         # a filtered frame
  elif rl == 'repeated':
    df.index = [i % max(1, len(df) // 2) for i in range(len(df))]      # chunks concatenated without ignore_index
  return df


def build_elig_frame(elig, rename=None, id_int=False):
  import pandas as pd
  if elig is None:
    return None
  ids = [(rename.get(r[0], r[0]) if rename else r[0]) for r in elig['rows']]
  if id_int and all(i.isdigit() for i in ids):
    ids = [int(i) for i in ids]
  df = pd.DataFrame({'geo': ids, 'control': [r[1] for r in elig['rows']], 'treatment': [r[2] for r in elig['rows']],
                     'exclude': [r[3] for r in elig['rows']]})
  if elig.get('col_order'):
    df = df[['geo'] + list(elig['col_order'])] if elig.get('as_index') or sum(map(ord, elig['col_order'][0])) % 2 else df[list(elig['col_order']) + ['geo']]
  if elig.get('as_index'):
    df = df.set_index('geo')
  elif elig.get('row_labels'):
    n = len(df)
    df.index = [n - 1 - i for i in range(n)] if elig['row_labels'] == 'reversed' else [3 * i + 2 for i in range(n)]
  return df


def _tol(v):
  return float('inf') if v == 'inf' else v


def _quantile_range(values, q, low_floor, edge=None):
  """Data-aware bound placement: midpoints between neighbouring attainable values (DESIGN 3.8-7).

  edge='near': each bound is instead placed 3e-6 (relative) *inside* an attainable value, i.e. that value is clearly
  (3000 bands) outside the range yet within any sloppy 1e-5 tolerance."""
  vals = sorted(set(float(v) for v in values if v == v and not math.isinf(v)))
  if not vals:
    return None
  m = len(vals)
  if q == 'low':
    return (low_floor, max(low_floor * 2, vals[0] / 2.0)) if vals[0] / 2.0 > low_floor else None
  if q == 'high':
    return (vals[-1] * 2.0, vals[-1] * 4.0)
  i = min(m - 1, int(q[0] * m))
  j = min(m - 1, int(q[1] * m))
  lo = (vals[i - 1] + vals[i]) / 2.0 if i > 0 else max(low_floor, vals[0] / 2.0)
  hi = (vals[j] + vals[j + 1]) / 2.0 if j < m - 1 else vals[-1] * 1.5
  if edge == 'near':
    if i > 0 and vals[i - 1] * (1 + 3e-6) < vals[i] * (1 - 3e-6):
      lo = vals[i - 1] * (1 + 3e-6)
    if j < m - 1 and vals[j + 1] * (1 - 3e-6) > vals[j] * (1 + 3e-6):
      hi = vals[j + 1] * (1 - 3e-6)
  if not lo < hi:
    return None
  return (lo, hi)


class Case:
  pass


def base_kwargs(spec):
  p = spec['params']
  kw = {'n_test': spec['panel']['n_test'], 'iroas': p['iroas'], 'n_designs': p['n_designs']}
  for k in ('treatment_geos_range', 'control_geos_range'):
    if p.get(k) is not None:
      kw[k] = tuple(float(v) for v in p[k]) if p.get('float_ranges') else tuple(p[k])
  for k in ('geo_ratio_tolerance', 'volume_ratio_tolerance'):
    if p.get(k) is not None:
      kw[k] = _tol(p[k])
  for k in ('n_geos_max', 'n_pretest_max', 'sig_level', 'power_level', 'flevel', 'min_corr', 'rho_max'):
    if p.get(k) is not None:
      kw[k] = p[k]
  if p.get('float_ints'):
    # integer-valued fields given as floats (7.0 for 7): accepted by the parameter class
    for k in ('n_test', 'n_designs', 'n_geos_max', 'n_pretest_max'):
      if k in kw and k in p['float_ints']:
        kw[k] = float(kw[k])
  if p.get('big_upper'):
    # an upper size bound far beyond the number of geos ("no upper limit")
    for k in ('treatment_geos_range', 'control_geos_range'):
      if k in kw and k in p['big_upper']:
        kw[k] = (kw[k][0], p['big_upper'][k])
  return kw


def transformed(case, scale=1.0, rename=None, date_shift=0, permute=True, id_int=None, perm_seed=None, row_labels=None):
  """A presentation variant of an already materialised case: same resolved kwargs (budget range scaled), new frames."""
  c = Case()
  spec = case.spec
  panel = dict(spec['panel'])
  if perm_seed is not None:
    panel['perm_seed'] = perm_seed
  if row_labels is not None:
    panel['row_labels'] = row_labels
  c.spec = spec
  c.resp_col = panel['resp_col']
  c.df = build_frame(panel, scale, rename, date_shift, permute, id_int)
  eint = (panel['id_int'] if id_int is None else id_int)
  c.elig_df = build_elig_frame(spec['elig'], rename, bool(eint))
  kw = dict(case.kwargs)
  if 'budget_range' in kw:
    kw['budget_range'] = (kw['budget_range'][0] * scale, kw['budget_range'][1] * scale)
  c.kwargs = kw
  c.elig_rows = None if spec['elig'] is None else [[(rename.get(r[0], r[0]) if rename else r[0])] + list(r[1:]) for r in spec['elig']['rows']]
  c.space = None
  return c


def materialise(spec, scale=1.0, rename=None, date_shift=0, permute=True, id_int=None):
  """-> Case with df, elig_df, kwargs (budget/share resolved from the data) and the reference Space."""
  c = Case()
  c.spec = spec
  panel = spec['panel']
  c.resp_col = panel['resp_col']
  c.df = build_frame(panel, scale, rename, date_shift, permute, id_int)
  eint = (panel['id_int'] if id_int is None else id_int)
  c.elig_df = build_elig_frame(spec['elig'], rename, bool(eint))
  kw = base_kwargs(spec)
  rows = None if spec['elig'] is None else [[(rename.get(r[0], r[0]) if rename else r[0])] + list(r[1:]) for r in spec['elig']['rows']]
  sp = Space(c.df, rows, kw, c.resp_col)
  p = spec['params']
  if not sp.reject and (p.get('share_q') is not None or p.get('budget_q') is not None):
    shares, budgets = sp.reference_values(scale)
    if p.get('share_q') is not None:
      r = _quantile_range(shares, p['share_q'], 1e-6, p.get('edge'))
      if r is not None:
        lo, hi = max(r[0], 1e-6), min(r[1], 1 - 1e-6)
        if lo < hi:
          kw['treatment_share_range'] = (lo, hi)
    if p.get('budget_q') is not None:
      r = _quantile_range(budgets, p['budget_q'], 0.0, p.get('edge'))
      if r is not None and r[1] < float('inf'):
        kw['budget_range'] = (r[0], r[1])
    sp = Space(c.df, rows, kw, c.resp_col)
  if not sp.reject and p.get('share_squeeze'):
    # a share range between the three possible denominators (all geos in the data > assignable geos > admitted geos): a small
    # group is below the range measured against all geos and above it measured against the admitted geos
    x = sum(sp.share[g] for g in sp.geos if g not in sp.assignable)
    free = sorted((g for g in sp.assignable), key=lambda g: sp.share[g])
    if len(free) >= 4 and x > 0:
      b = sp.share[free[-1]]
      s_ = sp.share[free[0]] + sp.share[free[1]]
      lo = (s_ + s_ / (1 - x)) / 2.0
      hi = (s_ / (1 - x) + s_ / (1 - x - b)) / 2.0
      if 0 < lo < hi < min(1.0, b):
        kw['treatment_share_range'] = (lo, hi)
        sp = Space(c.df, rows, kw, c.resp_col)
  if not sp.reject and p.get('budget_rel') is not None and kw.get('iroas') and getattr(sp, 'gimp', None):
    # budget cap placed relative to the largest optimistic single-geo budget among the treatable geos (no enumeration of
    # the design space: used for panels with many geos)
    vals = [sp.gimp[g] / kw['iroas'] for g in sp.assignable if sp.elig[g][1] and sp.gimp[g] == sp.gimp[g] and sp.gimp[g] > 0]
    if vals:
      kw['budget_range'] = (0.0, max(vals) * float(p['budget_rel']))
      sp = Space(c.df, rows, kw, c.resp_col)
  c.kwargs = kw
  c.space = sp
  c.elig_rows = rows
  return c


# ---------------------------------------------------------------------------
# reference space

def pd_NA():
  import pandas as pd
  return pd.NA


class Space:
  """R1 canonicalisation, R2 eligibility, R3 admitted set, R6 legal designs, R7 constraints - from the raw inputs."""

  def __init__(self, df, elig_rows, kwargs, resp_col):
    par = dict(PAR_DEFAULTS)
    par.update(kwargs)
    for k in ('n_test', 'n_designs', 'n_geos_max', 'n_pretest_max'):
      if isinstance(par.get(k), float) and par[k] == int(par[k]):
        par[k] = int(par[k])               # 7.0 means 7
    self.par = types.SimpleNamespace(**par)
    # R1: canonical table
    raw_g = df['geo'].tolist()
    geos = [str(g) for g in raw_g]
    dates = df['date'].tolist()
    vals = [float('nan') if v is None or v is pd_NA() else float(v) for v in df[resp_col].tolist()]
    # a row whose value is missing (NaN) is a missing cell, exactly like an absent row; a row without a geo ID belongs to no geo
    keep = [i for i, v in enumerate(vals) if v == v and raw_g[i] is not None and raw_g[i] is not pd_NA() and raw_g[i] == raw_g[i]]
    geos, dates, vals = [geos[i] for i in keep], [dates[i] for i in keep], [vals[i] for i in keep]
    self.geos = sorted(set(geos))
    self.dates = sorted(set(dates))
    di = {d: i for i, d in enumerate(self.dates)}
    self.M = {g: np.zeros(len(self.dates)) for g in self.geos}
    for g, d, v in zip(geos, dates, vals):
      if v == v:
        self.M[g][di[d]] = v
    n_win = min(len(self.dates), self.par.n_pretest_max)
    self.W = {g: self.M[g][len(self.dates) - n_win:] for g in self.geos}
    self.n_win = n_win
    self.mean = {g: float(self.M[g].mean()) for g in self.geos}
    tot = sum(self.mean[g] for g in self.geos)
    self.share = {g: self.mean[g] / tot for g in self.geos}
    # R2: eligibility
    self.reject = False
    if elig_rows is None:
      self.elig = {g: (1, 1, 1) for g in self.geos}
      self.table_geos = set(self.geos)
    else:
      table = {str(r[0]): tuple(int(v) for v in r[1:]) for r in elig_rows}
      self.table_geos = set(table)
      missing_required = [g for g, r in table.items() if g not in self.M and r[2] == 0]
      if missing_required:
        self.reject = True
      self.elig = {g: r for g, r in table.items() if g in self.M}
    self.assignable = {g for g, r in self.elig.items() if r != (0, 0, 1)}
    self.must = {g for g, r in self.elig.items() if r[2] == 0}
    self.x_fixed = {g for g, r in self.elig.items() if r == (0, 0, 1)}
    self.window_ok = n_win >= self.par.n_test + 3
    if not self.window_ok or n_win < 3:
      self.gimp = {g: float('nan') for g in self.geos}
    else:
      self.gimp = {g: R.required_impact(self.W[g], self.par.rho_max, self.par) for g in self.geos}
    self._admitted()

  # R3
  def _admitted(self):
    par = self.par
    self.adm_uncertain = False
    too_large, over_budget = set(), set()
    if par.treatment_share_range is not None:
      smax = par.treatment_share_range[1]
      for g in self.geos:
        if abs(self.share[g] - smax) <= BAND * smax:
          self.adm_uncertain = True
        if self.share[g] > smax:
          too_large.add(g)
    if par.budget_range is not None:
      imax = par.budget_range[1] * par.iroas
      for g in self.geos:
        if abs(self.gimp[g] - imax) <= BAND * max(imax, 1e-300):
          self.adm_uncertain = True
        if self.gimp[g] > imax:
          over_budget.add(g)
    self.too_large, self.over_budget = too_large, over_budget
    adm = (self.assignable - too_large - over_budget) | self.must
    self.adm_before_cap = set(adm)
    self.cap_hits_must = False
    if par.n_geos_max is not None and len(adm) > par.n_geos_max:
      order = sorted(adm, key=lambda g: (-self.gimp[g], g))
      must_first = [g for g in order if g in self.must] + [g for g in order if g not in self.must]
      keep = must_first[:max(par.n_geos_max, len(self.must & adm))]
      if len(self.must & adm) > par.n_geos_max:
        self.cap_hits_must = True
      free = [g for g in order if g not in self.must]
      n_free = len(keep) - len([g for g in keep if g in self.must])
      if 0 < n_free < len(free):
        a, b = self.gimp[free[n_free - 1]], self.gimp[free[n_free]]
        if abs(a - b) <= BAND * max(abs(a), abs(b), 1e-300):
          self.adm_uncertain = True
      # the library's own order (impact only) must agree whenever no must-include geo would be cut
      self.cap_cuts_must = any(g in self.must for g in order[par.n_geos_max:])
      adm = set(keep)
    else:
      self.cap_cuts_must = False
    self.adm = adm

  # R6
  def legal_designs(self, geos=None, cap=None):
    """All (T, C) frozenset pairs over the geo set respecting each geo's row, both groups non-empty."""
    A = sorted(self.adm if geos is None else geos)
    choices = []
    for g in A:
      c, t, x = self.elig[g]
      choices.append([a for a, ok in (('c', c), ('t', t), ('x', x)) if ok])
    n = 0
    for combo in itertools.product(*choices):
      T = frozenset(g for g, a in zip(A, combo) if a == 't')
      C = frozenset(g for g, a in zip(A, combo) if a == 'c')
      if T and C:
        yield T, C
        n += 1
        if cap is not None and n >= cap:
          return

  def series(self, S):
    out = np.zeros(self.n_win)
    for g in sorted(S):
      out = out + self.W[g]
    return out

  def budget(self, T, C):
    y = self.series(T)
    x = self.series(C)
    rho = R.pearson(x, y)
    if rho != rho or abs(rho) >= 1:
      return float('nan')
    imp = R.required_impact(y, rho, self.par)
    return imp / self.par.iroas if self.par.iroas else float('inf')

  def reference_values(self, scale=1.0):
    """Attainable treatment shares and budgets over (a sample of) the legal designs on the assignable geos."""
    designs = list(self.legal_designs(self.assignable | self.must, cap=4000))
    if len(designs) > 300:
      step = len(designs) // 300
      designs = designs[::step]
    shares = sorted({round(sum(self.share[g] for g in T), 12) for T, _ in designs})
    budgets = []
    if self.window_ok:
      for T, C in designs:
        b = self.budget(T, C)
        if b == b:
          budgets.append(b)
    return shares, budgets

  # R7: each -> 'in' | 'out' | 'band'
  @staticmethod
  def _status(v, lo, hi):
    if v != v:
      return 'out'
    slack_lo = BAND * max(abs(lo), 1e-300)
    slack_hi = BAND * max(abs(hi), 1e-300) if not math.isinf(hi) else 0.0
    if abs(v - lo) <= slack_lo or abs(v - hi) <= slack_hi:
      return 'band'
    return 'in' if lo < v < hi else 'out'

  def check_sizes(self, T, C):
    par = self.par
    if par.treatment_geos_range is not None and not par.treatment_geos_range[0] <= len(T) <= par.treatment_geos_range[1]:
      return 'out'
    if par.control_geos_range is not None and not par.control_geos_range[0] <= len(C) <= par.control_geos_range[1]:
      return 'out'
    return 'in'

  def check_geo_ratio(self, T, C):
    tol = self.par.geo_ratio_tolerance
    if tol is None or math.isinf(tol):
      return 'in'
    hi = 1 + Fraction(tol)
    r = Fraction(len(C), len(T))
    d = hi.denominator
    if d & (d - 1) or d > 2 ** 20 or hi > 2 ** 20:
      # 1 + tol is not computed exactly in floats (tol = 1/3, 2/3, 0.2 ...): a size ratio on the boundary may go either way
      if abs(r - hi) <= Fraction(1, 10 ** 9) * hi or abs(r - 1 / hi) <= Fraction(1, 10 ** 9) / hi:
        return 'band'
    return 'in' if 1 / hi <= r <= hi else 'out'

  def check_volume(self, T, C):
    tol = self.par.volume_ratio_tolerance
    if tol is None:
      return 'in'
    st = sum(self.share[g] for g in T)
    sc = sum(self.share[g] for g in C)
    if math.isinf(tol):
      return 'in'
    return self._status(sc / st, 1.0 / (1.0 + tol), 1.0 + tol)

  def share_readings(self, T, adm=None):
    """{'all': status, 'admitted': status} for the treatment share range."""
    rng = self.par.treatment_share_range
    if rng is None:
      return {'all': 'in', 'admitted': 'in'}
    st = sum(self.share[g] for g in T)
    sa = sum(self.share[g] for g in (self.adm if adm is None else adm))
    return {'all': self._status(st, rng[0], rng[1]), 'admitted': self._status(st / sa, rng[0], rng[1])}

  def check_budget(self, T, C):
    rng = self.par.budget_range
    if rng is None:
      return 'in', None
    b = self.budget(T, C)
    st_ = self._status(b, rng[0], rng[1])
    if st_ != 'band' and b == b:
      # nearly collinear groups: sqrt(1 - rho^2) carries a relative error of ~1e-16 / (1 - rho^2), so the budget itself
      # is known only to that accuracy - widen the either-way band accordingly
      rho = R.pearson(self.series(C), self.series(T))
      err = 2e-15 / max(1e-300, 1.0 - rho * rho)
      if err > BAND and (abs(b - rng[0]) <= err * abs(rng[0]) or (not math.isinf(rng[1]) and abs(b - rng[1]) <= err * abs(rng[1])) or err >= 0.5):
        st_ = 'band'
    return st_, b

  def legal(self, T, C):
    """C01 predicate for one design (IDs as strings)."""
    problems = []
    if not T or not C:
      problems.append('empty-group')
    if T & C:
      problems.append('overlap')
    for g in T | C:
      if g not in self.M:
        problems.append('geo-not-in-data')
      elif g not in self.elig:
        problems.append('geo-not-in-table')
    for g in T:
      if g in self.elig and not self.elig[g][1]:
        problems.append('treatment-ineligible')
    for g in C:
      if g in self.elig and not self.elig[g][0]:
        problems.append('control-ineligible')
    if (T | C) & self.x_fixed:
      problems.append('must-exclude-used')
    return problems


# ---------------------------------------------------------------------------
# library drivers (the only code here that touches matched_markets)

def build_mm(case):
  """Fresh data / parameter / search objects from fresh copies of the inputs."""
  from matched_markets.methodology import geoeligibility, tbrmatchedmarkets, tbrmmdata, tbrmmdesignparameters
  par = tbrmmdesignparameters.TBRMMDesignParameters(**case.kwargs)
  ge = geoeligibility.GeoEligibility(case.elig_df.copy()) if case.elig_df is not None else None
  data = tbrmmdata.TBRMMData(case.df.copy(), case.resp_col, ge)
  return tbrmatchedmarkets.TBRMatchedMarkets(data, par), par


def design_record(d):
  """Plain-data view of a returned TBRMMDesign (IDs as strings)."""
  diag = d.diag
  rec = {'T': frozenset(str(g) for g in d.treatment_geos), 'C': frozenset(str(g) for g in d.control_geos),
         'score': tuple(d.score.score), 'raw': d}
  if diag is not None:
    rec['x'] = None if diag.x is None else np.asarray(diag.x, float)
    rec['y'] = np.asarray(diag.y, float)
    rec['corr'] = diag.corr
    rec['required_impact'] = diag.required_impact
  return rec


def other_kwargs(kw):
  """Parameters of a second searcher that shares the data object: same window, different geo subset / sizes."""
  kb = dict(kw)
  if 'n_geos_max' in kb:
    del kb['n_geos_max']
  else:
    kb['n_geos_max'] = 2
  if 'treatment_geos_range' in kb:
    del kb['treatment_geos_range']
  else:
    kb['treatment_geos_range'] = (1, 1)
  kb.pop('budget_range', None)
  kb['n_designs'] = 3
  return kb


def run_search(case, method, seed_numpy=True, history=None):
  """-> ('ok', [records], mm) | ('rejected', msg) | ('ValueError', msg) | ('crash', kind, msg).

  history='shared-data': a second searcher with other parameters (same analysis window) is built on the SAME data
  object; the measured result is that of searcher A's second run, after B has searched in between."""
  from vmm import core
  from matched_markets.methodology import tbrmatchedmarkets, tbrmmdesignparameters
  if seed_numpy:
    np.random.seed(12345)
  try:
    if history == 'params-mutated':
      # the caller builds the searcher with other (legal) values of the fields that are read at search time, lets it
      # search once, then sets the fields to the values under test on the same parameter object
      real = {k: case.kwargs.get(k) for k in ('n_designs', 'geo_ratio_tolerance', 'volume_ratio_tolerance',
                                              'treatment_geos_range', 'control_geos_range')}
      decoy = dict(case.kwargs)
      decoy.update(n_designs=(7 if real['n_designs'] != 7 else 3),
                   geo_ratio_tolerance=(None if real['geo_ratio_tolerance'] is not None else 0.5),
                   volume_ratio_tolerance=(None if real['volume_ratio_tolerance'] is not None else 4.0),
                   treatment_geos_range=(None if real['treatment_geos_range'] is not None else (1, 2)),
                   control_geos_range=(None if real['control_geos_range'] is not None else (1, 2)))
      # ... including the fields that decide which geos take part (the searcher re-derives its geo list from the live
      # parameters on every access): the decoy drops the largest / most expensive geos or none at all
      sp = case.space
      real.update({k: case.kwargs.get(k) for k in ('n_geos_max', 'treatment_share_range', 'budget_range')})
      decoy['n_geos_max'] = None if real['n_geos_max'] is not None else max(2, len(sp.geos) - 1)
      shares = sorted(sp.share.values())
      if real['treatment_share_range'] is not None:
        decoy['treatment_share_range'] = None
      elif len(shares) >= 3 and shares[-1] > shares[-2] * 1.001 and 0 < shares[-2] * 1.0005 < 1:
        decoy['treatment_share_range'] = (shares[0] * 0.5, shares[-2] * 1.0005)        # the largest geo is too large
      if real['budget_range'] is not None:
        decoy['budget_range'] = None
      elif case.kwargs.get('iroas') and getattr(sp, 'gimp', None):
        imps = sorted(v for v in sp.gimp.values() if v == v and v > 0)
        if len(imps) >= 3:
          decoy['budget_range'] = (0.0, imps[len(imps) // 2] / case.kwargs['iroas'] * 1.0005)   # about half of the geos over budget
      decoy = {k: v for k, v in decoy.items() if v is not None}
      c2 = Case()
      c2.__dict__.update(case.__dict__)
      c2.kwargs = decoy
      try:
        mm, par = build_mm(c2)
      except ValueError:
        # the decoy values were not accepted together: plain construction
        mm, par = build_mm(case)
        real = {}
      try:
        getattr(mm, method)()
      except ValueError:
        pass
      for k, v in real.items():
        setattr(par, k, v)
    elif history == 'shared-eligibility':
      # one GeoEligibility object serves two panels: first another panel (other volume ranking), then this one
      from matched_markets.methodology import geoeligibility, tbrmmdata
      par = tbrmmdesignparameters.TBRMMDesignParameters(**case.kwargs)
      ge = geoeligibility.GeoEligibility(case.elig_df.copy()) if case.elig_df is not None else None
      if ge is not None:
        other = case.df.copy()
        other[case.resp_col] = other[case.resp_col].to_numpy()[::-1].copy()
        try:
          mm0 = tbrmatchedmarkets.TBRMatchedMarkets(tbrmmdata.TBRMMData(other, case.resp_col, ge), par)
          getattr(mm0, method)()
        except ValueError:
          pass
      mm = tbrmatchedmarkets.TBRMatchedMarkets(tbrmmdata.TBRMMData(case.df.copy(), case.resp_col, ge), par)
    else:
      mm, par = build_mm(case)
    if history == 'reused-data':
      # the data object was used before by a searcher with the full window (same other parameters)
      data = mm.data
      kw0 = dict(case.kwargs)
      kw0['n_pretest_max'] = max(90, len(case.space.dates))       # the full history (the default of 90 may be shorter than the window under test)
      from matched_markets.methodology import geoeligibility, tbrmmdata
      ge = geoeligibility.GeoEligibility(case.elig_df.copy()) if case.elig_df is not None else None
      data = tbrmmdata.TBRMMData(case.df.copy(), case.resp_col, ge)
      mm0 = tbrmatchedmarkets.TBRMatchedMarkets(data, tbrmmdesignparameters.TBRMMDesignParameters(**kw0))
      try:
        _ = mm0.geo_assignments
        getattr(mm0, method)()
      except ValueError:
        pass
      mm = tbrmatchedmarkets.TBRMatchedMarkets(data, par)
  except ValueError as e:
    return ('rejected', str(e)[:200])
  except Exception as e:  # pylint: disable=broad-except
    return ('crash', core.crash_kind('build', e), str(e)[:200])
  if history == 'other-search-first':
    # the same searcher object has already run the other search
    other = 'greedy_search' if method == 'exhaustive_search' else 'exhaustive_search'
    try:
      getattr(mm, other)()
    except ValueError:
      pass
    except Exception as e:  # pylint: disable=broad-except
      return ('crash', core.crash_kind(other + ':prefix', e), str(e)[:200])
    if seed_numpy:
      np.random.seed(12345)
  if history == 'shared-data':
    try:
      mm_b = tbrmatchedmarkets.TBRMatchedMarkets(mm.data, tbrmmdesignparameters.TBRMMDesignParameters(**other_kwargs(case.kwargs)))
      if len(case.space.geos) % 4 == 3:
        _ = mm_b.geo_assignments          # the other searcher is inspected before the measured one does anything
        mm_b.count_max_designs()
      getattr(mm, method)()
      for m2 in ('exhaustive_search', 'greedy_search'):
        try:
          getattr(mm_b, m2)()
        except ValueError:
          pass
    except ValueError:
      pass
    except Exception as e:  # pylint: disable=broad-except
      return ('crash', core.crash_kind(method + ':shared-data-prefix', e), str(e)[:200])
    if seed_numpy:
      np.random.seed(12345)
  try:
    res = getattr(mm, method)()
  except ValueError as e:
    return ('ValueError', str(e)[:200])
  except Exception as e:  # pylint: disable=broad-except
    return ('crash', core.crash_kind(method, e), str(e)[:200])
  if not isinstance(res, list):
    return ('crash', '%s:not-a-list' % method, type(res).__name__)
  return ('ok', [design_record(d) for d in res], mm)


def describe(case):
  sp = case.space
  return {'geos': len(sp.geos), 'dates': len(sp.dates), 'window': sp.n_win, 'kwargs': {k: (list(v) if isinstance(v, tuple) else v) for k, v in case.kwargs.items()},
          'elig': None if case.elig_rows is None else {str(r[0]): ''.join(map(str, r[1:])) for r in case.elig_rows}}
