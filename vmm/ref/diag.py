"""R4 / R5: independent re-implementation of the design-side diagnostics, required impact and score.

Written from the class docstrings and Kerman (2017); no matched_markets import. Every discrete outcome
comes with a fragility flag (statistic within 1e-9 relative of its threshold) so that callers can put
such cases in the don't-care band (DESIGN 3.8-4).
"""
import functools
import math

import numpy as np
from scipy import stats

BB_BOUND = 3.0
DW_RANGE = (1.5, 2.5)
AA_PROB = 0.2
MIN_TP = 3
EPS = 1e-9


@functools.lru_cache(maxsize=4096)
def t_ppf(p, df):
  return float(stats.t.ppf(p, df))


@functools.lru_cache(maxsize=4096)
def f_ppf(p, dfd):
  return float(stats.f.ppf(p, 1, dfd))


def impact_term(n_test, n, flevel, sig_level, power_level):
  phi = f_ppf(flevel, n - 1)
  tq = t_ppf(sig_level, n - 2) + t_ppf(power_level, n - 2)
  return tq * n_test * math.sqrt(phi * (n + 1) / (n * n_test * (n - 1)) + 1.0 / n + 1.0 / n_test)


def sd2(y):
  y = np.asarray(y, float)
  n = len(y)
  return math.sqrt(float(((y - y.mean()) ** 2).sum()) / (n - 2))


def required_impact(y, rho, par):
  """par: any object/dict with n_test, flevel, sig_level, power_level."""
  g = (lambda k: par[k]) if isinstance(par, dict) else (lambda k: getattr(par, k))
  n = len(y)
  return impact_term(g('n_test'), n, g('flevel'), g('sig_level'), g('power_level')) * sd2(y) * math.sqrt(max(0.0, 1.0 - rho * rho))


def moments(x, y):
  x = np.asarray(x, float)
  y = np.asarray(y, float)
  xm = float(x.mean())
  ym = float(y.mean())
  dx = x - xm
  dy = y - ym
  return xm, ym, float((dx * dx).sum()), float((dy * dy).sum()), float((dx * dy).sum())


def pearson(x, y):
  _, _, sxx, syy, sxy = moments(x, y)
  if sxx <= 0 or syy <= 0:
    return float('nan')
  return sxy / math.sqrt(sxx * syy)


def ols(x, y):
  """a, b, sigma (ddof 2), residuals; None when x is constant."""
  x = np.asarray(x, float)
  y = np.asarray(y, float)
  n = len(x)
  xm, ym, sxx, _, sxy = moments(x, y)
  if sxx <= 0:
    return None
  b = sxy / sxx
  a = ym - b * xm
  resid = y - a - b * x
  sigma = math.sqrt(float((resid ** 2).sum()) / (n - 2)) if n > 2 else float('nan')
  return a, b, sigma, resid


def _rel_margin(v, thr):
  return abs(v - thr) / max(abs(thr), 1e-300)


def tbrfit(x, y, xt, yt, n_test, sig_level):
  """Design-side TBR fit: estimate, cihw, sigma, scale (class docstring of tbrfit)."""
  fit = ols(x, y)
  if fit is None:
    return None
  _, b, sigma, _ = fit
  x = np.asarray(x, float)
  y = np.asarray(y, float)
  n = len(x)
  dx = xt - float(x.mean())
  dy = yt - float(y.mean())
  est = n_test * (dy - b * dx)
  varx = float(((x - x.mean()) ** 2).sum()) / n
  dv = dx * dx / varx
  scale = n_test * sigma * math.sqrt((1 + dv) / n + 1.0 / n_test)
  return est, t_ppf(sig_level, n - 2) * scale, sigma, scale


def diagnostics(x, y, par):
  """All design diagnostics for control x / treatment y. Returns dict with 'fragile' (set of names)."""
  g = (lambda k: par[k]) if isinstance(par, dict) else (lambda k: getattr(par, k))
  x = np.asarray(x, float)
  y = np.asarray(y, float)
  n = len(y)
  out = {'fragile': set()}
  corr = pearson(x, y)
  out['corr'] = corr
  if corr == corr and 1.0 - corr * corr < 1e-12:
    # the two series are collinear up to ~1e-6 of their spread: the regression residuals, and every test computed from
    # them, consist largely of rounding noise - no obligation on their outcomes
    out['fragile'] |= {'aa', 'bb', 'dw'}
  if corr == corr and abs(corr) < 1:
    out['required_impact'] = required_impact(y, corr, par)
  else:
    out['required_impact'] = None
  out['corr_test'] = bool(corr >= g('min_corr'))
  if corr == corr and abs(corr - g('min_corr')) < EPS:
    out['fragile'].add('corr_test')
  c100 = corr * 100 if corr == corr else 0.0
  out['corr_round'] = round(float(corr), 2) if corr == corr else corr
  if abs((c100 - math.floor(c100)) - 0.5) < 1e-6:
    out['fragile'].add('corr_round')
  fit = ols(x, y)
  if fit is None:
    out['fit'] = None
    out['bb'] = False
    out['dw'] = None
    out['aa'] = None
    return out
  a, b, sigma, resid = fit
  out['fit'] = (a, b, sigma)
  if sigma > 0:
    k = np.arange(1, n)
    bounds = BB_BOUND * np.sqrt(k * (1.0 - k / float(n)))
    cs = np.abs(np.cumsum(resid / sigma)[:-1])
    out['bb'] = not bool((cs > bounds).any())
    if len(cs) and float(np.min(np.abs(cs - bounds) / bounds)) < EPS:
      out['fragile'].add('bb')
  else:
    out['bb'] = None
    out['fragile'].add('bb')
  d = np.diff(resid)
  ssr = float((resid ** 2).sum())
  dw = float((d ** 2).sum()) / ssr if ssr > 0 else float('nan')
  out['dwstat'] = dw
  out['dw'] = bool(DW_RANGE[0] < dw < DW_RANGE[1])
  if dw == dw and min(_rel_margin(dw, DW_RANGE[0]), _rel_margin(dw, DW_RANGE[1])) < EPS:
    out['fragile'].add('dw')
  n_test = g('n_test')
  npre = n - n_test
  if npre < MIN_TP:
    out['aa'] = None
    return out
  fit2 = tbrfit(x[:npre], y[:npre], float(x[npre:].mean()), float(y[npre:].mean()), n_test, g('sig_level'))
  if fit2 is None:
    out['aa'] = 'nofit'
    out['fragile'].add('aa')
    return out
  est, cihw, s2, scale = fit2
  lo, hi = est - cihw, est + cihw
  out['aa_bounds'] = (lo, hi)
  if min(abs(lo), abs(hi)) < EPS * max(abs(scale), abs(est), 1e-300):
    out['fragile'].add('aa')
  if lo * hi < 0:
    out['aa'] = True
    out['aa_prob'] = None
  else:
    tm = min(abs(lo), abs(hi))
    if s2 > 0:
      tqs = cihw / s2
      ps = s2 * math.sqrt(1.0 / npre + 1.0 / n_test)
      p = 1 - float(stats.t.cdf(tqs - tm / ps, npre - 2)) + float(stats.t.cdf(-tqs - tm / ps, npre - 2))
      out['aa_prob'] = p
      out['aa'] = bool(p <= AA_PROB)
      if abs(p - AA_PROB) < EPS:
        out['fragile'].add('aa')
    else:
      out['aa'] = None
      out['fragile'].add('aa')
  return out


def score_tuple(d, budget_max=None):
  """(corr_test, aa, bb, dw, round(corr,2), 1/I or budget_max/I); None when a component is undefined."""
  if d['required_impact'] is None or d['aa'] in (None, 'nofit') or d['bb'] is None or d['dw'] is None:
    return None
  last = (budget_max / d['required_impact']) if budget_max is not None else 1.0 / d['required_impact']
  return (int(d['corr_test']), int(d['aa']), int(d['bb']), int(d['dw']), d['corr_round'], last)


def score_fragile(d):
  return bool(d['fragile'] & {'corr_test', 'aa', 'bb', 'dw', 'corr_round'})
