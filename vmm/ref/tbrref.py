"""R8: closed-form TBR posterior (Kerman 2017, eq. 5), written from the paper; no statsmodels, no matched_markets."""
import math

import numpy as np
from scipy import stats


class Posterior:
  """Posterior of the cumulative effect on each analysed day, from pre-period totals (x, y) and analysed totals."""

  def __init__(self, x_pre, y_pre, x_an, y_an):
    x_pre = np.asarray(x_pre, float)
    y_pre = np.asarray(y_pre, float)
    x_an = np.asarray(x_an, float)
    y_an = np.asarray(y_an, float)
    n = len(x_pre)
    self.n = n
    self.xm = float(x_pre.mean())
    self.ym = float(y_pre.mean())
    dx = x_pre - self.xm
    self.sxx = float((dx * dx).sum())
    self.degenerate = not (self.sxx > 0) or n < 3
    if self.degenerate:
      return
    self.b = float((dx * (y_pre - self.ym)).sum()) / self.sxx
    self.a = self.ym - self.b * self.xm
    self.resid = y_pre - self.a - self.b * x_pre
    self.df = n - 2
    self.sigma2 = float((self.resid ** 2).sum()) / (n - 2)
    syy = float(((y_pre - self.ym) ** 2).sum())
    # precondition of every numerical clause: positive residual variance, well above rounding noise
    if not (self.sigma2 * (n - 2) > 1e-10 * max(syy, 1e-300)) or not (self.sxx > 1e-10 * max(self.xm ** 2, 1e-300) * n):
      self.degenerate = True
    self.effect = y_an - self.a - self.b * x_an            # pointwise effect on analysed days
    self.loc = np.cumsum(self.effect)
    t = np.arange(1, len(x_an) + 1, dtype=float)
    cx = np.cumsum(x_an - self.xm)
    self.scale = np.sqrt(self.sigma2 * (t + t * t / n + cx * cx / self.sxx))

  def predict(self, x):
    return self.a + self.b * np.asarray(x, float)

  def summary(self, level, tails, threshold, rescale):
    alpha = (1.0 - level) / tails
    loc = rescale * self.loc
    sc = rescale * self.scale
    q = float(stats.t.ppf(alpha, self.df))
    lower = loc + sc * q
    if tails == 1:
      upper = np.full(len(loc), np.inf)
    else:
      upper = loc + sc * float(stats.t.ppf(1.0 - alpha, self.df))
    with np.errstate(divide='ignore', invalid='ignore'):
      prob = stats.t.sf((threshold - loc) / sc, self.df)
    return {'estimate': loc, 'lower': lower, 'upper': upper, 'scale': sc, 'probability': prob,
            'precision': np.abs(loc - lower), 'alpha': alpha}

  def quantile(self, p):
    return self.loc + self.scale * float(stats.t.ppf(p, self.df))
